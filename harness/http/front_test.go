package http

// Front-end harnesses for the HTTP side: C19 (local-only, injection-free),
// C20 (exactly the torrent's files), C02 (Range requests are exact views).
// Engine C: enumeration of routes x methods x hosts, hostile strings x pages,
// file lists x lookups, windows x Range headers, on the real handlers behind a
// ServeMux that mirrors Serve()'s three routes, with httptest recorders.

import (
	"sync"
	"bytes"
	"context"
	"errors"
	"fmt"
	"io"
	"mime/multipart"
	"net/http"
	"net/http/httptest"
	"net/netip"
	"net/url"
	"os"
	"sort"
	"strings"
	"testing"

	xhtml "golang.org/x/net/html"

	"github.com/jech/storrent/config"
	"github.com/jech/storrent/hash"
	"github.com/jech/storrent/known"
	"github.com/jech/storrent/path"
	"github.com/jech/storrent/peer"
	"github.com/jech/storrent/tor"
	"github.com/jech/storrent/tracker"
	"github.com/jech/storrent/zzverif/fixture"
	rc "github.com/jech/storrent/zzverif/refcodec"
	"github.com/jech/storrent/zzverif/vh"
)

var (
	serveOnce sync.Once
	serveErr  error
)

// newMux returns the multiplexer the real server answers from: Serve() registers
// its routes on http.DefaultServeMux (and so does anything else in the binary
// that registers handlers there), so that is what a request reaches.  Serve is
// called once, on a loopback port; should listening be impossible the same
// three routes are registered on a private multiplexer.
func newMux() *http.ServeMux {
	serveOnce.Do(func() { serveErr = Serve("127.0.0.1:0") })
	if serveErr == nil {
		return http.DefaultServeMux
	}
	mux := http.NewServeMux()
	mux.HandleFunc("/{$}", rootHandler)
	mux.HandleFunc("/{file}", torRootHandler)
	mux.HandleFunc("/{hash}/{path...}", torHandler)
	return mux
}

type resp struct {
	code   int
	body   []byte
	header http.Header
	pan    any
}

func do(mux *http.ServeMux, method, target, host string, hdr map[string]string, body io.Reader, ctype string) (r resp) {
	defer func() {
		if p := recover(); p != nil && p != http.ErrAbortHandler {
			r.pan = p
		}
	}()
	req := httptest.NewRequest(method, target, body)
	req.Host = host
	for k, v := range hdr {
		req.Header.Set(k, v)
	}
	if ctype != "" {
		req.Header.Set("Content-Type", ctype)
	}
	w := httptest.NewRecorder()
	mux.ServeHTTP(w, req)
	r.code = w.Code
	r.body = w.Body.Bytes()
	r.header = w.Header()
	return
}

func setup() {
	peer.VerifReset()
	config.SetDefaultProxy("")
	config.MemoryMark = 1 << 30
	config.DefaultDhtMode = config.DhtNone
	config.DefaultUseTrackers = false
	config.DefaultUseWebseeds = false
	config.SetIdleRate(0)
}

// ---------------------------------------------------------------------------
// C20 / C02: file lists

type layout struct {
	Name  string
	Files []fixture.File
	Piece int
}

func pathsOf(l layout) []string {
	var out []string
	for _, f := range l.Files {
		out = append(out, strings.Join(f.Path, "/"))
	}
	return out
}

func layouts(thorough bool) []layout {
	N := []string{"a", "a b", "a%20b", "é", "x?y", "#h", "a.b", "a&b;c", "a'b\"c", "ab", "abc", "A", "+", "a+b", "..a", "a..", "%2F", "%", ";", "="}
	var out []layout
	for _, n := range N {
		out = append(out, layout{Name: n, Files: []fixture.File{{Path: nil, Length: 40000}}, Piece: 16384})
	}
	f := func(p string, l int64) fixture.File { return fixture.File{Path: strings.Split(p, "/"), Length: l} }
	pad := func(p string, l int64) fixture.File { return fixture.File{Path: strings.Split(p, "/"), Length: l, Padding: true} }
	multi := [][]fixture.File{
		{f("a", 100)},
		{f("d/a", 100), f("d/b", 16384), f("d/e/a", 20000)},
		{f("ab", 10), f("abc", 20), f("ab c", 30)},
		{f("a", 0), f("b", 16385), f("c", 0)},
		{f("a", 100), pad(".pad/1", 16284), f("b", 40000)},
		{f("x/a b", 5), f("x/a%20b", 6), f("x/a+b", 7)},
		{f("d/a", 1), f("D/a", 2), f("d/A", 3)},
		{f("a/b/c", 10), f("a/b", 20)}, // a file and a directory of the same name
		{f("é/ü", 16384), f("é/#", 1), f("é/?", 2)},
		{f("a/1", 10), f("b/2", 20), f("a/3", 30)}, // a directory's files are not adjacent
		{f("dir/x.mkv", 33000), f("dir/y'\"<>&.srt", 100)},
		{f("%2F/a", 3), f("%/b", 4)},
		{f("a", 16384), f("b", 16384), f("c", 16384), f("d", 1)},
		// padding files inside directories, before / between / after the directory's real files
		{f("data/1.bin", 1000), pad("data2/.pad/15384", 15384), f("data2/2.bin", 16384), f("data2/3.bin", 5)},
		{pad("d/.pad/1", 100), f("d/x", 16284), pad("d/e/.pad/2", 7), f("d/e/y", 9)},
		{f("d/x", 10), pad("d/x.pad", 16374), f("d/y", 10), pad("z", 6), f("zz", 1)},
	}
	for i, m := range multi {
		out = append(out, layout{Name: fmt.Sprintf("multi%d", i), Files: m, Piece: 16384})
		out = append(out, layout{Name: "m " + N[i%len(N)], Files: m, Piece: 32768})
	}
	if thorough {
		// systematic: 1-4 files with paths of depth <= 3 over a small name set
		names := []string{"a", "a b", "é", "ab"}
		var paths []string
		for _, a := range names {
			paths = append(paths, a)
			for _, b := range names[:2] {
				paths = append(paths, a+"/"+b)
				paths = append(paths, a+"/"+b+"/"+a)
			}
		}
		for i := 0; i < len(paths); i++ {
			for j := i + 1; j < len(paths); j++ {
				// a path may not be both a file and a directory prefix of another
				if strings.HasPrefix(paths[j], paths[i]+"/") || strings.HasPrefix(paths[i], paths[j]+"/") {
					continue
				}
				out = append(out, layout{Name: fmt.Sprintf("sys%d_%d", i, j), Files: []fixture.File{f(paths[i], 100), f(paths[j], 17000)}, Piece: 16384})
			}
		}
	}
	return out
}

func escapePath(p []string) string {
	var l []string
	for _, c := range p {
		l = append(l, url.PathEscape(c))
	}
	return strings.Join(l, "/")
}

type front struct {
	res     *vh.Result
	prop    string
	nontriv map[string]bool
}

func (h *front) viol(key, format string, a ...any) {
	msg := fmt.Sprintf(format, a...)
	h.res.Violate(key, msg, map[string]any{"detail": msg})
}

// expectedFiles: for multi-file torrents the component list; single-file: [name]
func expectedFiles(fx *fixture.T) (paths [][]string, offs, lens []int64, pad []bool) {
	if len(fx.Files) == 1 && fx.Files[0].Path == nil {
		return [][]string{{fx.Name}}, []int64{0}, []int64{fx.Files[0].Length}, []bool{false}
	}
	for i, f := range fx.Files {
		paths = append(paths, f.Path)
		offs = append(offs, fx.Offset[i])
		lens = append(lens, f.Length)
		pad = append(pad, f.Padding)
	}
	return
}

func (h *front) checkLayout(l layout) {
	fx, err := fixture.Build(l.Name, l.Files, l.Piece, nil)
	if err != nil {
		h.res.Add("layouts_rejected", 1)
		return
	}
	defer fx.Close()
	mux := newMux()
	hs := fx.Tor.Hash.String()
	host := "localhost:8088"
	paths, offs, lens, _ := expectedFiles(fx)
	desc := fmt.Sprintf("[torrent %q files %q]", l.Name, pathsOf(l))
	if h.prop == "C02" {
		// Range requests on every file
		h.checkRanges(mux, fx, desc)
		return
	}
	get := func(target string) resp {
		h.res.Add("evaluations", 1)
		r := do(mux, "GET", target, host, nil, nil, "")
		if r.pan != nil {
			h.viol(h.prop+"/http-panic", "GET %s panicked: %v %s", target, r.pan, desc)
		} else if r.code >= 500 {
			h.viol(h.prop+"/http-5xx", "GET %s answered %d %s", target, r.code, desc)
		}
		return r
	}
	isFile := map[string]int{}
	for i, p := range paths {
		isFile[strings.Join(p, "\x00")] = i
	}
	// 1. every file resolves to exactly its bytes
	for i, p := range paths {
		if len(p) == 0 {
			continue
		}
		r := get("/" + hs + "/" + escapePath(p))
		// two files may have the same path only if listed twice; the first wins
		first := isFile[strings.Join(p, "\x00")]
		wantOff, wantLen := offs[first], lens[first]
		_ = i
		if r.code != 200 {
			h.viol("C20/http-file-not-served", "GET of listed file %q answered %d %s", strings.Join(p, "/"), r.code, desc)
			continue
		}
		if !bytes.Equal(r.body, fx.Truth[wantOff:wantOff+wantLen]) {
			h.viol("C20/http-file-wrong-bytes", "GET of %q returned %d bytes that are not the file's content (offset %d length %d) %s", strings.Join(p, "/"), len(r.body), wantOff, wantLen, desc)
		}
		if cl := r.header.Get("Content-Length"); cl != fmt.Sprint(wantLen) {
			h.viol("C20/http-content-length", "GET of %q: Content-Length %q, the file has %d bytes %s", strings.Join(p, "/"), cl, wantLen, desc)
		}
		h.nontriv["file/"+l.Name+"/"+strings.Join(p, "/")] = true
	}
	// 2. everything else fails cleanly
	var probes [][]string
	for _, p := range paths {
		for k := 1; k < len(p); k++ {
			probes = append(probes, p[:k]) // proper prefix
		}
		probes = append(probes, append(append([]string{}, p...), "x"), append(append([]string{}, p...), p[len(p)-1]))
		for k := range p {
			for _, mut := range []func(string) string{strings.ToUpper, strings.ToLower, func(s string) string { return s + " " }, func(s string) string { return " " + s },
				func(s string) string { return url.PathEscape(s) }, func(s string) string { u, _ := url.PathUnescape(s); return u + "" }, func(s string) string { return s + "/" },
				func(s string) string { return "." }, func(s string) string { return ".." }, func(s string) string { return "" }, func(s string) string { return s[:len(s)/2] }} {
				q := append([]string{}, p...)
				q[k] = mut(p[k])
				probes = append(probes, q)
			}
		}
	}
	probes = append(probes, []string{"nonexistent"}, []string{".."}, []string{"..", hs}, []string{fx.Name}, []string{fx.Name, "x"})
	for _, q := range probes {
		key := strings.Join(q, "\x00")
		if _, ok := isFile[key]; ok {
			continue
		}
		if len(q) == 0 || q[len(q)-1] == "" {
			continue // that is a directory URL
		}
		r := get("/" + hs + "/" + escapePath(q))
		if r.code == 200 && !strings.Contains(r.header.Get("Content-Type"), "text/html") {
			h.viol("C20/http-resolves-unlisted-path", "GET of %q (not a file of the torrent) answered 200 with %d bytes %s", strings.Join(q, "/"), len(r.body), desc)
		}
	}
	// raw (unescaped) and oddly escaped forms
	for _, p := range paths {
		raw := "/" + hs + "/" + strings.Join(p, "/")
		if u, err := url.Parse(raw); err == nil && u.Path == raw && !strings.ContainsAny(raw, " ?#%") {
			if r := get(raw); r.code != 200 {
				h.viol("C20/http-raw-path", "GET %q (no escaping needed) answered %d %s", raw, r.code, desc)
			}
		}
		get("/" + hs + "//" + escapePath(p))
		get("/" + hs + "/" + strings.ReplaceAll(escapePath(p), "/", "%2F"))
	}
	// 3. directory pages link exactly the files below them
	dirs := map[string][]string{"": nil}
	for _, p := range paths {
		for k := 1; k < len(p); k++ {
			dirs[strings.Join(p[:k], "\x00")] = p[:k]
		}
	}
	multi := !(len(fx.Files) == 1 && fx.Files[0].Path == nil)
	for _, d := range dirs {
		target := "/" + hs + "/"
		if len(d) > 0 {
			target += escapePath(d) + "/"
		}
		r := get(target)
		if r.code != 200 {
			h.viol("C20/http-directory", "directory page %q answered %d %s", target, r.code, desc)
			continue
		}
		links := fileLinks(r.body, hs)
		var want []string
		for _, p := range paths {
			if len(p) > len(d) && samePrefix(p, d) && (multi || len(d) == 0) {
				want = append(want, "/"+hs+"/"+escapePath(p))
			}
		}
		sort.Strings(want)
		got := append([]string{}, links...)
		sort.Strings(got)
		if strings.Join(got, "\n") != strings.Join(want, "\n") {
			h.viol("C20/http-directory-links", "directory page %q links %q, the files below it are %q %s", target, got, want, desc)
		}
		for _, lk := range links {
			if r2 := get(lk); r2.code != 200 {
				h.viol("C20/http-directory-link-broken", "link %q on page %q answered %d %s", lk, target, r2.code, desc)
			}
		}
		// playlists
		for _, pt := range []string{target + "?playlist"} {
			h.checkPlaylist(mux, fx, pt, d, paths, multi, desc)
		}
	}
	h.checkPlaylist(mux, fx, "/"+hs+".m3u", nil, paths, multi, desc)
	if r := get("/" + hs + "/nonexistent-dir/"); r.code == 200 && multi && len(fileLinks(r.body, hs)) > 0 {
		h.viol("C20/http-phantom-directory", "a directory that does not exist lists files %s", desc)
	}
	if r := get("/" + hs + "/nonexistent-dir/?playlist"); r.code == 200 {
		h.viol("C20/http-phantom-playlist", "a playlist was served for a directory that does not exist %s", desc)
	}
	// 4. the .torrent file comes back with the same info-hash
	if r := get("/" + hs + ".torrent"); r.code == 200 {
		if t2, err := tor.ReadTorrent("", bytes.NewReader(r.body)); err != nil || !t2.Hash.Equal(fx.Tor.Hash) {
			h.viol("C13/http-torrent-file", "the served .torrent does not parse back to the same info-hash (%v) %s", err, desc)
		}
	}
}

func samePrefix(p, d []string) bool {
	for i := range d {
		if p[i] != d[i] {
			return false
		}
	}
	return true
}

// fileLinks extracts the href of every <a> that points below /<hash>/ and is not a directory or playlist link.
func fileLinks(page []byte, hs string) []string {
	var out []string
	z := xhtml.NewTokenizer(bytes.NewReader(page))
	for {
		tt := z.Next()
		if tt == xhtml.ErrorToken {
			return out
		}
		if tt == xhtml.StartTagToken {
			tok := z.Token()
			if tok.Data != "a" {
				continue
			}
			for _, a := range tok.Attr {
				if a.Key == "href" && strings.HasPrefix(a.Val, "/"+hs+"/") && !strings.HasSuffix(a.Val, "/") && !strings.Contains(a.Val, "?playlist") && len(a.Val) > len(hs)+2 {
					out = append(out, a.Val)
				}
			}
		}
	}
}

func (h *front) checkPlaylist(mux *http.ServeMux, fx *fixture.T, target string, d []string, paths [][]string, multi bool, desc string) {
	h.res.Add("evaluations", 1)
	r := do(mux, "GET", target, "localhost:8088", nil, nil, "")
	if r.pan != nil {
		h.viol(h.prop+"/http-panic", "GET %s panicked: %v %s", target, r.pan, desc)
		return
	}
	var want [][]string
	for _, p := range paths {
		if len(p) > len(d) && samePrefix(p, d) && (multi || len(d) == 0) {
			want = append(want, p)
		}
	}
	sort.SliceStable(want, func(i, j int) bool { return path.Path(want[i]).Compare(path.Path(want[j])) < 0 })
	if len(want) == 0 {
		if r.code == 200 {
			h.viol("C20/http-phantom-playlist", "playlist %q served although nothing is below it %s", target, desc)
		}
		return
	}
	if r.code != 200 {
		h.viol("C20/http-playlist", "playlist %q answered %d %s", target, r.code, desc)
		return
	}
	lines := strings.Split(strings.TrimSuffix(string(r.body), "\n"), "\n")
	if len(lines) != 1+2*len(want) {
		key := "C20/http-playlist-lines"
		if h.prop == "C19" {
			key = "C19/playlist-line-injection"
		}
		h.viol(key, "playlist %q has %d lines for %d files (expected %d) %s", target, len(lines), len(want), 1+2*len(want), desc)
		return
	}
	hs := fx.Tor.Hash.String()
	for i, p := range want {
		u := lines[2+2*i]
		wantURL := "http://localhost:8088/" + hs + "/" + escapePath(p)
		if u != wantURL {
			h.viol("C20/http-playlist-url", "playlist %q entry %d is %q, expected %q %s", target, i, u, wantURL, desc)
		}
	}
}

// checkRanges: every file x a Range alphabet, against an independent slice of truth.
func (h *front) checkRanges(mux *http.ServeMux, fx *fixture.T, desc string) {
	paths, offs, lens, _ := expectedFiles(fx)
	hs := fx.Tor.Hash.String()
	seen := map[string]bool{}
	for i, p := range paths {
		key := strings.Join(p, "\x00")
		if seen[key] || len(p) == 0 {
			continue
		}
		seen[key] = true
		L := lens[i]
		file := fx.Truth[offs[i] : offs[i]+L]
		target := "/" + hs + "/" + escapePath(p)
		type rg struct {
			hdr  string
			a, b int64 // expected inclusive range; a<0: whole file (200); a==-2: unsatisfiable; a==-3: not judged
		}
		cands := []rg{{"", -1, 0}, {"bytes=0-0", 0, 0}, {"bytes=0-", 0, L - 1}, {"bytes=-1", L - 1, L - 1}, {fmt.Sprintf("bytes=%d-%d", L/2, L-1), L / 2, L - 1},
			{fmt.Sprintf("bytes=%d-", L), -2, 0}, {fmt.Sprintf("bytes=%d-%d", L-1, L+100), L - 1, L - 1}, {"bytes=16383-16385", 16383, 16385}, {"bytes=1-1", 1, 1},
			{fmt.Sprintf("bytes=-%d", L+5), 0, L - 1}, {"bytes=5-2", -3, 0}, {"bytes=abc", -3, 0}, {"bytes=0-0,2-3", -3, 0}, {"items=0-1", -3, 0}, {"bytes=-0", -3, 0}}
		for _, c := range cands {
			if c.a >= 0 && (c.a >= L || c.b >= L || c.b < c.a) {
				continue
			}
			if L == 0 {
				continue
			}
			for _, method := range []string{"GET", "HEAD"} {
				h.res.Add("evaluations", 1)
				hdr := map[string]string{}
				if c.hdr != "" {
					hdr["Range"] = c.hdr
				}
				r := do(mux, method, target, "localhost:8088", hdr, nil, "")
				where := fmt.Sprintf("[%s %q Range %q, file of %d bytes] %s", method, strings.Join(p, "/"), c.hdr, L, desc)
				if r.pan != nil || r.code >= 500 {
					h.viol("C02/http-range-crash", "status %d panic %v %s", r.code, r.pan, where)
					continue
				}
				switch {
				case c.a == -1:
					if r.code != 200 || (method == "GET" && !bytes.Equal(r.body, file)) {
						h.viol("C02/http-whole-file", "expected 200 with the whole file, got %d with %d bytes %s", r.code, len(r.body), where)
					}
				case c.a == -2:
					if r.code != 416 {
						h.viol("C02/http-unsatisfiable", "expected 416, got %d %s", r.code, where)
					}
				case c.a >= 0:
					wantCR := fmt.Sprintf("bytes %d-%d/%d", c.a, c.b, L)
					if r.code != 206 || r.header.Get("Content-Range") != wantCR {
						h.viol("C02/http-range-status", "expected 206 %q, got %d %q %s", wantCR, r.code, r.header.Get("Content-Range"), where)
					} else if method == "GET" && !bytes.Equal(r.body, file[c.a:c.b+1]) {
						h.viol("C02/http-range-bytes", "the body (%d bytes) is not bytes %d-%d of the file %s", len(r.body), c.a, c.b, where)
					} else if cl := r.header.Get("Content-Length"); cl != fmt.Sprint(c.b-c.a+1) {
						h.viol("C02/http-range-length", "Content-Length %q for a range of %d bytes %s", cl, c.b-c.a+1, where)
					}
				default:
					// not judged beyond self-consistency with the truth
					if r.code == 200 && method == "GET" && !bytes.Equal(r.body, file) {
						h.viol("C02/http-whole-file", "200 with a body that is not the file %s", where)
					}
					if r.code == 206 && method == "GET" && !strings.HasPrefix(r.header.Get("Content-Type"), "multipart/") {
						var a, b, l int64
						// (net/http's own answer to degenerate ranges such as "-0" is an
						// empty range a > b: a trusted library's quirk, not judged)
						if n, _ := fmt.Sscanf(r.header.Get("Content-Range"), "bytes %d-%d/%d", &a, &b, &l); n == 3 && a <= b && (l != L || b >= L || !bytes.Equal(r.body, file[a:b+1])) {
							h.viol("C02/http-range-bytes", "206 %q whose body is not that range of the file %s", r.header.Get("Content-Range"), where)
						}
					}
				}
				h.nontriv[fmt.Sprintf("range/%d/%s/%d", L, c.hdr, r.code)] = true
			}
		}
	}
}

func runFront(t *testing.T, prop string, f func(h *front)) {
	if os.Getenv("VERIF_OUT") == "" {
		t.Skip("verif harness: run through /verif/run")
	}
	setup()
	res := vh.NewResult(prop)
	h := &front{res: res, prop: prop, nontriv: map[string]bool{}}
	defer func() {
		res.Add("distinct_nontrivial", int64(len(h.nontriv)))
		if err := res.Write(); err != nil {
			t.Error(err)
		}
	}()
	f(h)
}

func TestVerifC20HTTP(t *testing.T) {
	runFront(t, "C20", func(h *front) {
		for i, l := range layouts(vh.Thorough()) {
			if vh.Mine(i) {
				h.checkLayout(l)
				if i%9 == 0 {
					h.res.Sample(map[string]any{"torrent": l.Name, "files": pathsOf(l)})
				}
			}
		}
	})
}

func TestVerifC02HTTP(t *testing.T) {
	runFront(t, "C02", func(h *front) {
		for i, l := range layouts(false) {
			if vh.Mine(i) {
				h.checkLayout(l)
			}
		}
		os.Setenv("VERIF_SHARD", fmt.Sprintf("%d/100", 60+shardIdx()))
		h.res.Sample(map[string]any{"http range": "bytes=16383-16385", "file": "d/e/a"})
	})
}

func shardIdx() int {
	i, _ := vh.Shard()
	return i
}

// ---------------------------------------------------------------------------
// C19

type stateSnap struct {
	torrents string
	upload   float64
	idle     uint32
}

func snapshot() stateSnap {
	var l []string
	tor.Range(func(hs hash.Hash, t *tor.Torrent) bool {
		c, _ := t.GetConf()
		l = append(l, fmt.Sprintf("%v:%v", hs, c))
		return true
	})
	sort.Strings(l)
	return stateSnap{strings.Join(l, " "), config.UploadRate(), config.IdleRate()}
}

type errTracker struct {
	url string
	err string
}

func (e *errTracker) URL() string                       { return e.url }
func (e *errTracker) GetState() (tracker.State, error) { return tracker.Error, errors.New(e.err) }
func (e *errTracker) Announce(ctx context.Context, hash []byte, myid []byte, want int, size int64, port4, port6 int, proxy string, f func(netip.AddrPort) bool) error {
	return nil
}

func TestVerifC19(t *testing.T) {
	runFront(t, "C19", func(h *front) {
		h.locality()
		h.injection()
	})
}

func (h *front) locality() {
	fx, err := fixture.Build("victim", []fixture.File{{Path: []string{"d", "a"}, Length: 100}, {Path: []string{"d", "b"}, Length: 20000}}, 16384, nil)
	if err != nil {
		panic(err)
	}
	defer fx.Close()
	mux := newMux()
	hs := fx.Tor.Hash.String()
	other := strings.Repeat("ab", 20)
	hosts := []struct {
		h       string
		foreign bool // a DNS name other than localhost: must be refused
	}{{"localhost:8088", false}, {"127.0.0.1:8088", false}, {"[::1]:8088", false}, {"example.com:8088", true}, {"localhost.evil.com:8088", true}, {"evil.localhost:8088", true},
		{"LOCALHOST:8088", true}, {"127.0.0.1.evil.com:8088", true}, {"localhost", false}, {"", false}, {"example.com", true}, {"a:b:c", false}, {"[::1]", false},
		{"localhostx:80", true}, {"xlocalhost:80", true}, {"localhost.:80", true}, {"127.0.0.1.nip.io:80", true}, {"evil.com:80@localhost:80", true}, {"localhost:80.evil.com:80", false},
		{"1.2.3.4.5:80", true}, {"0x7f.1:80", true}, {"localhost%00.evil.com:80", true}, {" localhost:80", true}, {"localhost :80", true}}
	targets := []string{"/", "/?q=peers&hash=" + hs, "/?q=set&upload=1&idle=2", "/?q=set-torrent&hash=" + hs + "&dht-mode=normal&use-trackers=1&use-webseeds=1", "/?q=delete&hash=" + hs,
		"/?q=add&url=magnet:?xt=urn:btih:" + other, "/?q=unknown", "/" + hs, "/" + hs + ".torrent", "/" + hs + ".m3u", "/" + hs + "/", "/" + hs + "/d/", "/" + hs + "/d/a", "/" + hs + "/d/?playlist",
		"/" + other + "/", "/garbage", "/" + hs + ".zip", "/favicon.ico",
		// routes that debugging packages register on the default multiplexer when they are linked in
		"/debug/pprof/", "/debug/pprof/cmdline", "/debug/pprof/goroutine?debug=1", "/debug/pprof/heap", "/debug/vars", "/debug/requests", "/debug/events"}
	methods := []string{"GET", "HEAD", "POST", "PUT", "DELETE", "OPTIONS"}
	n := 0
	for _, ho := range hosts {
		for _, tg := range targets {
			for _, m := range methods {
				n++
				if !vh.Mine(n) {
					continue
				}
				if !ho.foreign && (strings.Contains(tg, "q=delete") || strings.Contains(tg, "q=add") || strings.Contains(tg, "q=set")) {
					// an acceptable host may change state: not exercised here (it
					// would delete the fixture under the other requests)
					continue
				}
				before := snapshot()
				var body io.Reader
				ctype := ""
				target := tg
				if m == "POST" && strings.Contains(tg, "?q=") {
					// the UI posts forms: send the parameters in the body as well
					u, _ := url.Parse(tg)
					body = strings.NewReader(u.RawQuery)
					ctype = "application/x-www-form-urlencoded"
				}
				h.res.Add("evaluations", 1)
				r := do(mux, m, target, ho.h, nil, body, ctype)
				where := fmt.Sprintf("[%s %s Host %q]", m, tg, ho.h)
				if r.pan != nil {
					h.viol("C19/panic", "panic %v %s", r.pan, where)
					continue
				}
				if ho.foreign {
					if r.code < 400 || r.code >= 500 {
						h.viol("C19/foreign-host-not-refused", "a request with a foreign Host was answered %d %s", r.code, where)
					}
					if bytes.Contains(r.body, []byte(hs)) || bytes.Contains(r.body, []byte("victim")) || bytes.Contains(r.body, fx.Truth[:50]) {
						h.viol("C19/foreign-host-reads-state", "the answer to a request with a foreign Host contains state of the client %s", where)
					}
					if after := snapshot(); after != before {
						h.viol("C19/foreign-host-changes-state", "a request with a foreign Host changed the client's state: %v -> %v %s", before, after, where)
					}
				}
				h.nontriv[fmt.Sprintf("loc/%s/%s/%d", ho.h, tg, r.code)] = true
			}
		}
	}
	// multipart add (file upload) with a foreign host
	if vh.Mine(0) {
		meta, _ := fixture.Metainfo("uploaded", []fixture.File{{Length: 100}}, 16384, nil)
		var buf bytes.Buffer
		mw := multipart.NewWriter(&buf)
		fw, _ := mw.CreateFormFile("file", "x.torrent")
		fw.Write(meta)
		mw.Close()
		before := snapshot()
		r := do(mux, "POST", "/?q=add", "evil.example:8088", nil, &buf, mw.FormDataContentType())
		if r.code < 400 || snapshot() != before {
			h.viol("C19/foreign-host-changes-state", "a torrent upload with a foreign Host was accepted (%d)", r.code)
		}
	}
	h.res.Sample(map[string]any{"host": "localhost.evil.com:8088", "request": "POST /?q=delete&hash=..."})
}

var markers = []string{"\"><zz9 x=\"1\">", "</td><zz9>", "<zz9>", "' zz9a='1", "\" zz9a=\"1", "</a><zz9 href=x>", "<script>zz9()</script>", "&lt;zz9&gt;", "a\n#EXTINF:zz9", "a\r\nhttp://zz9/", "a,b\nzz9", "<!--zz9", "]]><zz9>", "\x00<zz9>", "<zz9/onload=x>"}

// injected reports how a hostile string made it into a page as markup.
func injected(page []byte) string {
	z := xhtml.NewTokenizer(bytes.NewReader(page))
	for {
		tt := z.Next()
		if tt == xhtml.ErrorToken {
			return ""
		}
		switch tt {
		case xhtml.StartTagToken, xhtml.SelfClosingTagToken, xhtml.EndTagToken:
			tok := z.Token()
			if strings.HasPrefix(tok.Data, "zz9") {
				return "an element <" + tok.Data + "> was introduced"
			}
			for _, a := range tok.Attr {
				if strings.Contains(a.Key, "zz9") {
					return "an attribute " + a.Key + " was introduced on <" + tok.Data + ">"
				}
			}
			if tok.Data == "script" && tt == xhtml.StartTagToken {
				if z.Next() == xhtml.TextToken && strings.Contains(string(z.Text()), "zz9()") {
					return "a script was introduced"
				}
			}
		case xhtml.CommentToken:
			if strings.Contains(string(z.Text()), "zz9") {
				return "a comment was opened by a hostile string"
			}
		}
	}
}

func (h *front) injection() {
	mux := newMux()
	// (known-addr-zone: an IPv6 address with a zone, which netip.ParseAddr accepts verbatim
	// and a tracker's dictionary-format peer list can therefore deliver)
	sites := []string{"name", "filename", "dirname", "tracker-url", "tracker-error", "webseed-url", "peer-version", "known-version", "peer-id", "known-addr-zone"}
	n := 0
	for _, site := range sites {
		for _, mk := range markers {
			n++
			if !vh.Mine(n) {
				continue
			}
			name := "benign"
			files := []fixture.File{{Path: []string{"dir", "file"}, Length: 100}, {Path: []string{"dir", "sub", "g"}, Length: 20000}}
			if site == "name" {
				name = mk
			}
			if site == "filename" {
				files[0].Path = []string{"dir", mk}
			}
			if site == "dirname" {
				files[1].Path = []string{"dir", mk, "g"}
			}
			if strings.ContainsAny(mk, "/\x00") && (site == "filename" || site == "dirname" || site == "name") {
				// components containing '/' or NUL have no representation in a
				// '/'-separated namespace (stated assumption)
				continue
			}
			var fx *fixture.T
			var err error
			if site == "tracker-url" || site == "tracker-error" || site == "webseed-url" {
				// built directly so that fake trackers can be supplied
				meta, truth := fixture.Metainfo(name, files, 16384, nil)
				v, _, _ := rc.Bdecode(meta)
				s, e, _ := v.(*rc.Dict).Span("info")
				info := meta[s:e]
				sum := sha1Of(info)
				var trs [][]tracker.Tracker
				var wss []string
				switch site {
				case "tracker-url":
					if tr := tracker.New("http://t.example/" + url.PathEscape(mk)); tr != nil {
						trs = append(trs, []tracker.Tracker{tr})
					}
					trs = append(trs, []tracker.Tracker{&errTracker{"http://t.example/x?" + mk, "plain"}})
				case "tracker-error":
					trs = [][]tracker.Tracker{{&errTracker{"http://t.example/a", mk}}}
				case "webseed-url":
					wss = []string{"http://w.example/" + mk}
				}
				tt, err2 := newTorrentWith(sum, info, trs, wss)
				if err2 != nil {
					continue
				}
				fx = &fixture.T{Tor: tt, Truth: truth, Files: files, Name: name}
				var off int64
				for _, f := range files {
					fx.Offset = append(fx.Offset, off)
					off += f.Length
				}
				fx.Fill()
			} else {
				fx, err = fixture.Build(name, files, 16384, nil)
				if err != nil {
					h.res.Add("hostile_inputs_rejected", 1)
					continue
				}
			}
			hs := fx.Tor.Hash.String()
			if site == "known-version" || site == "peer-version" {
				fx.Tor.AddKnown(netip.MustParseAddrPort("19.1.2.3:6881"), hash.Hash([]byte("-AB1234-abcdefghijkl")), mk, known.Seen)
			}
			if site == "known-addr-zone" {
				a, err := netip.ParseAddr("2001:db8::1%" + mk)
				if err != nil {
					h.res.Add("hostile_inputs_rejected", 1)
					fx.Close()
					continue
				}
				fx.Tor.AddKnown(netip.AddrPortFrom(a, 6881), hash.Hash([]byte("-AB1234-abcdefghijkl")), "v", known.Tracker)
			}
			if site == "peer-id" {
				id := []byte("-" + (mk + "      ")[:6] + "-abcdefghijkl")
				fx.Tor.AddKnown(netip.MustParseAddrPort("19.1.2.4:6881"), hash.Hash(id[:20]), "", known.Seen)
			}
			fx.Tor.GetStats() // make sure the AddKnown events have been handled
			pages := []string{"/", "/" + hs + "/", "/" + hs + "/dir/", "/?q=peers&hash=" + hs}
			for _, pg := range pages {
				h.res.Add("evaluations", 1)
				r := do(mux, "GET", pg, "localhost:8088", nil, nil, "")
				if r.pan != nil {
					h.viol("C19/panic", "rendering %s panicked: %v [site %s marker %q]", pg, r.pan, site, mk)
					continue
				}
				if !strings.Contains(r.header.Get("Content-Type"), "text/html") {
					continue
				}
				if how := injected(r.body); how != "" {
					h.viol("C19/html-injection/"+site, "%s on page %s: the %s %q appears unescaped", how, pg, site, mk)
				}
				h.nontriv[fmt.Sprintf("inj/%s/%s/%d", site, pg, len(r.body))] = true
			}
			// playlists: hostile file names must not add lines
			paths, _, _, _ := expectedFiles(fx)
			saved := h.prop
			h.checkPlaylist(mux, fx, "/"+hs+".m3u", nil, paths, true, fmt.Sprintf("[site %s marker %q]", site, mk))
			h.prop = saved
			fx.Close()
		}
	}
	h.res.Sample(map[string]any{"site": "tracker-error", "marker": markers[0]})
}
