package http

import (
	"context"
	"crypto/sha1"
	"io"
	"log"

	"github.com/jech/storrent/hash"
	"github.com/jech/storrent/tor"
	"github.com/jech/storrent/tracker"
	"github.com/jech/storrent/webseed"
)

func sha1Of(b []byte) hash.Hash {
	h := sha1.Sum(b)
	return hash.Hash(h[:])
}

// newTorrentWith builds and starts a torrent from an info dictionary with the
// given tracker values and web-seed URLs.
func newTorrentWith(h hash.Hash, info []byte, trs [][]tracker.Tracker, wss []string) (*tor.Torrent, error) {
	var ws []webseed.Webseed
	for _, u := range wss {
		if w := webseed.New(u, true); w != nil {
			ws = append(ws, w)
		}
	}
	t, err := tor.New("", h, "", info, 0, trs, ws)
	if err != nil {
		return nil, err
	}
	if err := t.MetadataComplete(); err != nil {
		return nil, err
	}
	t.Log = log.New(io.Discard, "", 0)
	return tor.AddTorrent(context.Background(), t)
}
