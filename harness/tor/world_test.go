package tor

// Engine B ("world"): a closed world of real actors inside a testing/synctest
// bubble.  The torrent is a real *Torrent whose event loop is played by the
// harness (one pending event -> one call of the real handleEvent; timers ->
// calls of the real periodicRequest / maybeUnchoke / requestMetadata); every
// peer is a real *peer.Peer driven by the real peer.Run goroutine with its real
// protocol.Reader/Writer goroutines over net.Pipe; the harness is the remote
// end of every connection and speaks through the independent reference codec.

import (
	"runtime"
	"bytes"
	"context"
	"crypto/sha1"
	"encoding/binary"
	"fmt"
	"io"
	"log"
	"math/rand/v2"
	"net"
	"net/netip"
	"os"
	"path/filepath"
	"reflect"
	"sort"
	"strconv"
	"strings"
	"sync"
	"testing/synctest"
	"time"

	"github.com/jech/storrent/alloc"
	"github.com/jech/storrent/config"
	"github.com/jech/storrent/hash"
	"github.com/jech/storrent/httpclient"
	"github.com/jech/storrent/mono"
	"github.com/jech/storrent/peer"
	"github.com/jech/storrent/protocol"
	"github.com/jech/storrent/webseed"
	rc "github.com/jech/storrent/zzverif/refcodec"
	"github.com/jech/storrent/zzverif/vmap"
	"github.com/jech/storrent/zzverif/vpool"
	"github.com/jech/storrent/zzverif/vsel"
)

const wchunk = 16 * 1024

type wgeom struct {
	Name   string
	PSize  uint32
	Length int64
}

var wgeoms = map[string]wgeom{
	"g2x2":   {"g2x2", 2 * wchunk, 4 * wchunk},           // 2 pieces of 2 blocks
	"gshort": {"gshort", 2 * wchunk, 4*wchunk + 100},     // + a third piece holding one 100-byte block
	"gtail":  {"gtail", 2 * wchunk, 5*wchunk + 1},        // third piece: one full block + a 1-byte block
	"g8":     {"g8", wchunk, 8 * wchunk},                 // 8 one-block pieces (piece count multiple of 8)
	"g9":     {"g9", wchunk, 9 * wchunk},                 // 9 one-block pieces
	"gbig":   {"gbig", 256 * wchunk, 512*wchunk + 100},   // 4 MiB pieces (mmap'd), holes larger than 1 MiB
}

func (g wgeom) npieces() int { return int((g.Length + int64(g.PSize) - 1) / int64(g.PSize)) }
func (g wgeom) nchunks() int { return int((g.Length + wchunk - 1) / wchunk) }
func (g wgeom) cpp() uint32  { return g.PSize / wchunk }
func (g wgeom) pieceLen(i uint32) uint32 {
	s := int64(i) * int64(g.PSize)
	e := s + int64(g.PSize)
	if e > g.Length {
		e = g.Length
	}
	if e < s {
		return 0
	}
	return uint32(e - s)
}
func (g wgeom) chunkLen(c uint32) uint32 {
	s := int64(c) * wchunk
	e := s + wchunk
	if e > g.Length {
		e = g.Length
	}
	return uint32(e - s)
}

func wtruthByte(i int64) byte {
	x := uint64(i)*0x9e3779b97f4a7c15 + 0x7654321
	x ^= x >> 29
	x *= 0xbf58476d1ce4e5b9
	x ^= x >> 32
	return byte(x) | 1
}

// problem is one oracle failure: property id, stable key, message.
type problem struct {
	Prop, Key, Msg string
}

type peerCfg struct {
	Fast, Ext bool
	ReqQ      int  // reqq in the remote's extended handshake (0 = absent)
	NoExt0    bool // do not send an extended handshake at all
	Incoming  bool
	DontHave  uint8 // the sub-id the remote assigns to lt_donthave (0 = not offered)
	Pex       uint8
	Metadata  uint8
	MetadataSize uint32
	NoM          bool   // the extended handshake carries no "m" dictionary (only reqq etc.)
	ExtPort      uint16 // listening port named in the extended handshake ("p"; 0 = absent)
}

type worldCfg struct {
	Geom    string
	Peers   []peerCfg
	Have    []int  // pieces the local store holds (verified) before anything connects
	Magnet  bool   // metadata unknown at start
	Webseed bool
	EventCap  int  // capacity of the torrent's event queue (0 = 512 as in the code)
	Gates     bool // peers can be stepped arm by arm (needs the select rewrite: profile worldsel)
	MapDesc   bool // the scheduler's map range loops run in descending key order (ascending otherwise; see shim/vmap)
	AutoDrain bool // deliver torrent events automatically after every stimulus
	IdleRate  int  // config.IdleRate (0 = idle prefetch off)
	InfoSize  int  // magnet worlds: size of the generated info dictionary (0 = natural)
	InfoKind  string // magnet worlds: "" = sane; otherwise an authentic but degenerate dictionary (see degenerateInfo)
}

// World is one live instance.
type World struct {
	cfg     worldCfg
	g       wgeom
	t       *Torrent
	ctx     context.Context
	cancel  context.CancelFunc
	truth   []byte
	info    []byte
	remotes []*remote
	prob    []problem
	allocBase int64
	loopDead  bool
	eventsHandled int
	transitions   int
	log     []string
	sawOverlong bool
	seed      *seedServer
	corruptions int
	consumers map[string]int // C10 reference model: registrations "piece/prio" -> count
	haves     map[uint32]int // TorHave(true) events handled, per piece
	readers   []*wreader
	chans     []*wchan
	evictions int
	haveLive  map[uint32]bool // pieces whose completion has been announced to the loop and not revoked since
	metaDelivered map[uint32]bool // magnet worlds: metadata blocks an honest remote has delivered with true content
	access    map[uint32]mono.Time // C03 reference model (the code's own clock: whole seconds): when each piece was last asked for through Torrent.Request (zero: never; data that arrives does not count as an access)
	wedged    bool // a step of the loop never returned
	gateMu    sync.Mutex
	byEvent   map[uintptr]*remote // command channel of a peer -> its remote (for selHook)
	skip      bool // the transition needed a gated peer to answer: not enabled in this state
	idle      time.Duration   // virtual time that has passed since the last transition that was not a pure time step
	home      map[string]bool // control states (stack signatures) of storrent's goroutines when the world was built
}

type wchan struct {
	piece     uint32
	ch        <-chan struct{}
	havesAt   int  // number of TorHave(true) for the piece handled before the channel was handed out
	abandoned bool // every registration for the piece has been withdrawn since
	dead      bool // no longer judged
}

type wreader struct {
	emptyAtEvictions int // number of evictions seen when this reader last returned an empty read
	r       *Reader
	ctx     context.Context
	cancel  context.CancelFunc
	off, ln int64
	pos     int64
	busy    bool
	done    chan struct{}
	n       int
	err     error
	buf     []byte
	closed  bool
}

func (w *World) problem(prop, key, format string, a ...any) {
	for _, p := range w.prob {
		if p.Key == key {
			return
		}
	}
	w.prob = append(w.prob, problem{prop, key, fmt.Sprintf(format, a...)})
}

// remote is the harness end of one peer connection.
type remote struct {
	w    *World
	idx  int
	cfg  peerCfg
	p    *peer.Peer
	conn net.Conn
	id   hash.Hash

	mu      sync.Mutex
	cond    *sync.Cond
	stalled bool
	inbuf   []byte
	eof     bool
	outq    [][]byte
	writing bool
	closed  bool

	frames int // frames decoded so far

	// what this remote has advertised (BEP 3/6 semantics), for the C09 oracle
	adv     map[uint32]bool
	advInit bool
	// C11 monitor: what storrent may request from us
	choking     bool // we are choking storrent
	fastSet     map[uint32]bool
	outstanding []rc.Msg // requests received from storrent, not yet answered/rejected/cancelled
	grace       bool     // permissions were revoked while frames could still be in flight
	resolvedStalled []rc.Msg // requests we answered/rejected while our inbound side was stalled: a Cancel emitted earlier may still arrive
	gotBitfield, gotOther bool
	sentExt0    bool
	// C16 monitor: what we asked of storrent
	unchokedByStorrent bool
	pendingUp          []rc.Msg // our requests storrent may still answer
	cancelledUp        []rc.Msg // requests we cancelled (a Fast peer acknowledges with a reject)
	pexKnown           map[netip.AddrPort]bool // peers storrent has announced to this remote over PEX and not dropped since
	told               map[uint32]bool // what storrent has told this remote it holds (Bitfield/Have/HaveAll/HaveNone/DontHave)
	votedSize          uint32   // metadata size announced in the remote's extended handshake
	goneBefore         bool     // the peer had already exited before the transition being judged
	gated              bool     // the peer's main loop parks before every select and takes the arm the harness names
	gate               chan int
	draining           bool // just ungated: ready arms are taken in source order until none is left
	gateReply          chan bool
	sentWhileGated     map[string]bool // requests sent while the peer was gated (it reads them at some later point of its own choosing)
	crossedUp          []rc.Msg // cancelled requests whose Piece storrent had already committed to its writer
	sentInterested     bool
	served             int
	metaReqs           []uint32 // ut_metadata requests received from storrent, unanswered
	lastEmittedChoke   int
}

func (r *remote) readLoop() {
	buf := make([]byte, 1<<16)
	for {
		r.mu.Lock()
		for r.stalled && !r.closed {
			r.cond.Wait()
		}
		r.mu.Unlock()
		n, err := r.conn.Read(buf)
		r.mu.Lock()
		r.inbuf = append(r.inbuf, buf[:n]...)
		if err != nil {
			r.eof = true
			r.mu.Unlock()
			return
		}
		r.mu.Unlock()
	}
}

func (r *remote) writeLoop() {
	for {
		r.mu.Lock()
		for len(r.outq) == 0 && !r.closed {
			r.cond.Wait()
		}
		if r.closed {
			r.mu.Unlock()
			return
		}
		f := r.outq[0]
		r.outq = r.outq[1:]
		r.writing = true
		r.mu.Unlock()
		r.conn.Write(f)
		r.mu.Lock()
		r.writing = false
		r.mu.Unlock()
	}
}

func (r *remote) send(m rc.Msg) {
	r.sendRaw(rc.Encode(m, rc.EncodeOpts{OmitZero: true}))
}

func (r *remote) sendRaw(f []byte) {
	r.mu.Lock()
	r.outq = append(r.outq, f)
	r.cond.Broadcast()
	r.mu.Unlock()
}

func (r *remote) pendingOut() bool {
	r.mu.Lock()
	defer r.mu.Unlock()
	return len(r.outq) > 0 || r.writing
}

func (r *remote) closeConn() {
	r.mu.Lock()
	r.closed = true
	r.cond.Broadcast()
	r.mu.Unlock()
	r.conn.Close()
}

func (r *remote) live() bool {
	// the peer is still in the torrent's peer list
	for _, p := range r.w.t.peers {
		if p == r.p {
			return true
		}
	}
	return false
}

func (r *remote) exited() bool {
	select {
	case <-r.p.Done:
		return true
	default:
		return false
	}
}

// ---------------------------------------------------------------------------

var infoCache = map[string][]byte{}
var truthCache = map[int64][]byte{}

func buildInfo(g wgeom, truth []byte, name string, padTo int) []byte {
	ck := fmt.Sprint(g, name, padTo)
	if b, ok := infoCache[ck]; ok {
		return b
	}
	b := buildInfo1(g, truth, name, padTo)
	infoCache[ck] = b
	return b
}

func buildInfo1(g wgeom, truth []byte, name string, padTo int) []byte {
	var pieces []byte
	for i := 0; i < g.npieces(); i++ {
		s := int64(i) * int64(g.PSize)
		e := s + int64(g.pieceLen(uint32(i)))
		h := sha1.Sum(truth[s:e])
		pieces = append(pieces, h[:]...)
	}
	d := &rc.Dict{}
	d.Set("length", g.Length)
	d.Set("name", name)
	d.Set("piece length", int64(g.PSize))
	d.Set("pieces", pieces)
	b := rc.Bencode(d)
	if padTo > len(b) {
		// an extra key with filler brings the dictionary to the wanted size
		fill := padTo - len(b) - len("5:zzpad") - 1
		n := fill
		for len(strconv.Itoa(n))+1+n > fill && n > 0 {
			n--
		}
		d.Set("zzpad", bytes.Repeat([]byte("p"), n))
		b = rc.Bencode(d)
		for len(b) < padTo {
			n++
			d.Set("zzpad", bytes.Repeat([]byte("p"), n))
			b = rc.Bencode(d)
		}
	}
	return b
}

// degenerateInfo returns an info dictionary that is authentic (the magnet names
// its hash) but whose contents are inconsistent: it must never make the torrent
// usable, and must not crash the client.
func degenerateInfo(g wgeom, truth []byte, kind string) []byte {
	var pieces []byte
	for i := 0; i < g.npieces(); i++ {
		s := int64(i) * int64(g.PSize)
		h := sha1.Sum(truth[s : s+int64(g.pieceLen(uint32(i)))])
		pieces = append(pieces, h[:]...)
	}
	d := &rc.Dict{}
	d.Set("length", g.Length)
	d.Set("name", "world")
	d.Set("piece length", int64(g.PSize))
	d.Set("pieces", pieces)
	switch kind {
	case "zero-piece-length":
		d.Set("piece length", int64(0))
	case "odd-piece-length":
		d.Set("piece length", int64(g.PSize)+1)
	case "short-pieces":
		d.Set("pieces", pieces[:20])
	case "long-pieces":
		d.Set("pieces", append(append([]byte{}, pieces...), pieces...))
	case "odd-pieces":
		d.Set("pieces", pieces[:19])
	case "no-name":
		d.Set("name", "")
	case "neg-file", "wrap-files":
		d = &rc.Dict{}
		f1, f2 := &rc.Dict{}, &rc.Dict{}
		f1.Set("length", g.Length+5000)
		f1.Set("path", []rc.Value{"a"})
		f2.Set("length", int64(-5000))
		f2.Set("path", []rc.Value{"b"})
		if kind == "wrap-files" {
			f1.Set("length", int64(9223372036854775807))
			f2.Set("length", int64(9223372036854775807))
		}
		d.Set("files", []rc.Value{f1, f2})
		d.Set("name", "world")
		d.Set("piece length", int64(g.PSize))
		d.Set("pieces", pieces)
	case "not-a-dict":
		return []byte("li1ei2ei3ee")
	case "huge-length":
		d.Set("length", int64(1)<<46)
	default:
		panic("unknown degenerate info " + kind)
	}
	return rc.Bencode(d)
}

var discardLog = func() *log.Logger {
	if os.Getenv("VERIF_LOG") != "" {
		return log.New(os.Stdout, "storrent: ", 0)
	}
	return log.New(io.Discard, "", 0)
}()

// newWorld builds the world; must be called inside a bubble.
func geomByName(name string) wgeom {
	if g, ok := wgeoms[name]; ok {
		return g
	}
	// "n:<pieces>[:<bytes missing from the last piece>]" : one-block pieces
	var n, miss int
	if _, err := fmt.Sscanf(name, "n:%d:%d", &n, &miss); err != nil {
		if _, err := fmt.Sscanf(name, "n:%d", &n); err != nil {
			panic("unknown geometry " + name)
		}
	}
	return wgeom{name, wchunk, int64(n)*wchunk - int64(miss)}
}

func newWorld(cfg worldCfg) *World {
	g := geomByName(cfg.Geom)
	w := &World{cfg: cfg, g: g, consumers: map[string]int{}, haves: map[uint32]int{}}
	if tr, ok := truthCache[g.Length]; ok {
		w.truth = tr
	} else {
		w.truth = make([]byte, g.Length)
		for i := range w.truth {
			w.truth[i] = wtruthByte(int64(i))
		}
		truthCache[g.Length] = w.truth
	}
	peer.VerifReset()
	config.SetIdleRate(uint32(cfg.IdleRate))
	config.PrefetchRate = 768 * 1024
	config.MemoryMark = 1 << 30
	config.SetUploadRate(512 * 1024)
	config.DefaultDhtMode = config.DhtNone
	config.DefaultUseTrackers = false
	config.DefaultUseWebseeds = cfg.Webseed
	config.Debug = false
	w.allocBase = alloc.Bytes()
	w.info = buildInfo(g, w.truth, "world", cfg.InfoSize)
	if cfg.InfoKind != "" {
		w.info = degenerateInfo(g, w.truth, cfg.InfoKind)
	}
	hsh := sha1.Sum(w.info)
	var ws []webseed.Webseed
	if cfg.Webseed {
		ws = append(ws, webseed.New("http://seed.example/world", true))
		w.seed = &seedServer{mode: "honoured", truth: w.truth, chunk: 1 << 20}
		httpclient.VerifInstall("", "", w.seed)
	}
	var t *Torrent
	var err error
	if cfg.Magnet {
		t, err = New("", hash.Hash(hsh[:]), "", nil, 0, nil, ws)
	} else {
		t, err = New("", hash.Hash(hsh[:]), "", w.info, 0, nil, ws)
		if err == nil {
			err = t.MetadataComplete()
		}
	}
	if err != nil {
		panic(err)
	}
	t.Log = discardLog
	evcap := 512
	if cfg.EventCap > 0 {
		evcap = cfg.EventCap
	}
	t.Event = make(chan peer.TorEvent, evcap)
	t.Done = make(chan struct{})
	t.Deleted = make(chan struct{})
	t.rand = rand.New(rand.NewPCG(1, 2))
	w.t = t
	vmap.SetDescending(cfg.MapDesc)
	vpool.ResetStats()
	if cfg.Gates {
		vsel.SetHook(w.selHook)
	} else {
		vsel.SetHook(nil)
	}
	w.ctx, w.cancel = context.WithCancel(context.Background())
	for _, i := range cfg.Have {
		w.storePiece(uint32(i))
	}
	for i, pc := range cfg.Peers {
		w.addPeer(i, pc)
	}
	return w
}

// storePiece puts a verified piece into the local store.
func (w *World) storePiece(i uint32) {
	s := int64(i) * int64(w.g.PSize)
	e := s + int64(w.g.pieceLen(i))
	w.t.Pieces.AddData(i, 0, append([]byte{}, w.truth[s:e]...), ^uint32(0))
	done, _, err := w.t.Pieces.Finalise(i, w.t.PieceHashes[i])
	if !done || err != nil {
		panic(fmt.Sprintf("storePiece(%d): %v %v", i, done, err))
	}

}

func (w *World) addPeer(i int, pc peerCfg) {
	a, b := net.Pipe()
	id := hash.Hash([]byte(fmt.Sprintf("-RM0001-remote%06d", i)))
	port := uint16(6881 + i)
	if pc.Incoming {
		port = 0
	}
	addr := netip.AddrPortFrom(netip.AddrFrom4([4]byte{11, 0, 0, byte(i + 1)}), port)
	p := peer.New("", a, addr, pc.Incoming, protocol.HandshakeResult{Hash: w.t.Hash, Id: id, Dht: false, Fast: pc.Fast, Extended: pc.Ext})
	p.Log = discardLog
	r := &remote{w: w, idx: i, cfg: pc, p: p, conn: b, id: id, adv: map[uint32]bool{}, choking: true, fastSet: map[uint32]bool{}}
	r.cond = sync.NewCond(&r.mu)
	r.gate, r.gateReply = make(chan int, 1), make(chan bool, 1)
	w.remotes = append(w.remotes, r)
	w.gateMu.Lock()
	if w.byEvent == nil {
		w.byEvent = map[uintptr]*remote{}
	}
	w.byEvent[chanPtr(p.Event)] = r
	w.gateMu.Unlock()
	go r.readLoop()
	go r.writeLoop()
	w.handle(peer.TorAddPeer{Peer: p})
	if pc.Ext && !pc.NoExt0 {
		r.sendExt0(pc.MetadataSize)
	}
}

// sendExt0 sends the remote's extended handshake, announcing the given metadata size.
func (r *remote) sendExt0(metadataSize uint32) {
	pc := r.cfg
	m := rc.Msg{Kind: rc.Ext0, M: map[string]uint8{}, HasM: true, ReqQ: uint32(pc.ReqQ), MetadataSize: metadataSize, ExtPort: pc.ExtPort}
	if pc.NoM {
		m.M, m.HasM = nil, false
		r.send(m)
		r.sentExt0 = true
		r.votedSize = metadataSize
		return
	}
	if pc.DontHave != 0 {
		m.M["lt_donthave"] = pc.DontHave
	}
	if pc.Pex != 0 {
		m.M["ut_pex"] = pc.Pex
	}
	if pc.Metadata != 0 {
		m.M["ut_metadata"] = pc.Metadata
	}
	r.send(m)
	r.sentExt0 = true
	r.votedSize = metadataSize
}

// --- stepping a peer arm by arm (profile worldsel) ------------------------------
//
// With the select statements of peer/peer.go rewritten into vsel.Select calls,
// the main loop of a gated peer parks before each select and waits for the
// harness to name the arm it is to take (pstep:<remote>:<arm>; arms of
// peer.Run's main select in source order: 0 writer gone, 1 torrent gone, 2 a
// command from the torrent, 3 a message from the remote, 4 hand the oldest
// parked event to the torrent, 5 upload tick, 6 two-second tick).  The arm is
// taken only if it is ready.  This makes the runtime's choice among several
// ready arms - and the interleaving of a peer's steps with the torrent's - a
// transition of the search instead of a coin the runtime tosses.

func chanPtr(c any) uintptr {
	v := reflect.ValueOf(c)
	if !v.IsValid() || v.Kind() != reflect.Chan {
		return 0
	}
	return v.Pointer()
}

func (w *World) selHook(id string, hasDefault bool, cases []vsel.Case) (int, bool) {
	if !strings.HasPrefix(id, "peer.go:") || len(cases) != 7 || hasDefault {
		return 0, false
	}
	// (this runs on the peers' goroutines, concurrently with the harness adding
	// remotes: the table is looked up under a lock, w.remotes is not touched)
	cp := chanPtr(cases[2].Chan())
	w.gateMu.Lock()
	r := w.byEvent[cp]
	gated := r != nil && r.gated
	draining := r != nil && r.draining
	w.gateMu.Unlock()
	if draining {
		// after ungate: whatever has become ready meanwhile is taken in source
		// order (deterministic), then the peer returns to its ordinary select
		for arm := 0; arm < len(cases); arm++ {
			if vsel.Take(cases, arm) {
				return arm, true
			}
		}
		w.gateMu.Lock()
		r.draining = false
		w.gateMu.Unlock()
		return 0, false
	}
	if !gated {
		return 0, false
	}
	for {
		cmd := <-r.gate
		if cmd < 0 {
			w.gateMu.Lock()
			r.draining = true
			w.gateMu.Unlock()
			for arm := 0; arm < len(cases); arm++ {
				if vsel.Take(cases, arm) {
					return arm, true
				}
			}
			w.gateMu.Lock()
			r.draining = false
			w.gateMu.Unlock()
			return 0, false
		}
		if vsel.Take(cases, cmd) {
			r.gateReply <- true
			return cmd, true
		}
		r.gateReply <- false
	}
}

func (w *World) anyGated() bool {
	for _, r := range w.remotes {
		if r.gated {
			return true
		}
	}
	return false
}

func (w *World) ungateAll() {
	for _, r := range w.remotes {
		if r.gated {
			w.gateMu.Lock()
			r.gated = false
			w.gateMu.Unlock()
			select {
			case r.gate <- -1:
			default:
			}
		}
	}
	synctest.Wait()
	for _, r := range w.remotes {
		// a command nobody took (the peer had exited)
		select {
		case <-r.gate:
		default:
		}
	}
}

// handle calls the real handleEvent for one event, as the loop would.  The
// handler runs on its own goroutine so that one that never returns (a blocking
// exchange with a peer that will never answer) is a finding with a history
// instead of a hung worker: ten minutes of virtual time is far beyond every
// timeout in the code.
func (w *World) handle(e peer.TorEvent) {
	if w.loopDead {
		return
	}
	w.eventsHandled++
	if h, ok := e.(peer.TorHave); ok {
		if h.Have {
			if w.cfg.AutoDrain && !w.cfg.Magnet && int(h.Index) < w.g.npieces() {
				if !w.t.Pieces.Complete(h.Index) {
					w.problem("C10", "C10/completion-announced-for-unverified-piece", "the torrent was told that piece %d is complete (waiters are woken, Have is broadcast) but the piece is not verified", h.Index)
				} else if w.haveLive[h.Index] {
					w.problem("C10", "C10/completion-notified-twice", "the completion of piece %d was announced a second time without the piece having been dropped in between", h.Index)
				}
			}
			if w.haveLive == nil {
				w.haveLive = map[uint32]bool{}
			}
			w.haveLive[h.Index] = true
			defer func() { w.haves[h.Index]++ }()
		} else {
			delete(w.haveLive, h.Index)
		}
	}
	var err error
	name := fmt.Sprintf("%T", e)
	if !w.guarded("handleEvent/"+name, "tor.handleEvent("+name+")", func() { err = handleEvent(w.ctx, w.t, e) }) {
		return
	}
	if err != nil {
		w.loopDead = true
	}
}

// guarded runs one step of the torrent loop with panic capture and a
// virtual-time watchdog; it reports whether the step returned.
func (w *World) guarded(key, what string, f func()) bool {
	done := make(chan struct{})
	go func() {
		defer close(done)
		defer func() {
			if p := recover(); p != nil {
				w.problem("C05", "C05/panic/"+key+"/"+firstLine(fmt.Sprint(p)), "%s panicked: %v", what, p)
				w.loopDead = true
			}
		}()
		f()
	}()
	if w.anyGated() {
		// a step of the torrent that needs an answer from a gated peer is not
		// enabled in this state: let everything go and discard the transition
		synctest.Wait()
		select {
		case <-done:
			return true
		default:
		}
		w.ungateAll()
		w.skip = true
	}
	tm := time.NewTimer(10 * time.Minute)
	select {
	case <-done:
		tm.Stop()
		return true
	case <-tm.C:
		w.problem("C05", "C05/loop-hangs/"+key, "%s did not return within ten minutes of virtual time: the torrent's loop is stuck and the whole torrent with it", what)
		w.loopDead = true
		w.wedged = true
		return false
	}
}

func firstLine(s string) string {
	if i := strings.IndexByte(s, '\n'); i >= 0 {
		s = s[:i]
	}
	if len(s) > 60 {
		s = s[:60]
	}
	return s
}

// call runs one of the loop's timer bodies (same guard as handle).
func (w *World) call(name string, f func()) {
	w.guarded(name, name, f)
}

// deliver hands pending events to the torrent: at most max of them (max<0: all,
// repeatedly, until nothing is in transit).
func (w *World) deliver(max int) int {
	n := 0
	for max < 0 || n < max {
		select {
		case e := <-w.t.Event:
			w.handle(e)
			n++
			synctest.Wait()
		default:
			return n
		}
	}
	return n
}

// settle brings the world to quiescence after a stimulus.
func (w *World) settle() {
	synctest.Wait()
	if w.cfg.AutoDrain {
		w.deliver(-1)
	}
	for _, r := range w.remotes {
		r.process()
	}
	for i, rd := range w.readers {
		if rd.busy {
			select {
			case <-rd.done:
				rd.busy = false
				w.judgeRead(i, rd)
			default:
			}
		}
	}
}

// judgeRead: whatever a Reader returns is the true content of its window (C02/C01).
func (w *World) judgeRead(i int, rd *wreader) {
	if rd.n < 0 || rd.n > len(rd.buf) {
		w.problem("C02", "C02/read-count", "reader %d: Read returned n=%d for a %d-byte buffer", i, rd.n, len(rd.buf))
		return
	}
	if rd.pos+int64(rd.n) > rd.ln {
		w.problem("C02", "C02/read-beyond-window", "reader %d (offset %d, length %d) at position %d returned %d bytes: beyond its range", i, rd.off, rd.ln, rd.pos, rd.n)
	} else if rd.n > 0 && !bytes.Equal(rd.buf[:rd.n], w.truth[rd.off+rd.pos:rd.off+rd.pos+int64(rd.n)]) {
		w.problem("C02", "C02/read-wrong-bytes", "reader %d at position %d returned %d bytes that differ from the true content", i, rd.pos, rd.n)
		w.problem("C01", "C01/reader-wrong-bytes", "reader %d at position %d returned %d bytes that differ from the true content", i, rd.pos, rd.n)
	}
	// (One empty read is legitimate after an eviction: the piece the reader had seen
	// complete is gone, and the next Read asks for it again.  A second one with no
	// further eviction in between is not.)
	emptyOK := false
	if rd.n == 0 && rd.err == nil && w.evictions > rd.emptyAtEvictions {
		emptyOK = true
		rd.emptyAtEvictions = w.evictions
	}
	if rd.n == 0 && rd.err == nil && len(rd.buf) > 0 && rd.pos < rd.ln && rd.ctx.Err() == nil && !emptyOK && !w.loopDead {
		// Read came back empty-handed without an error: its wait was ended
		// although the piece was not verified.  (Only after an eviction is an
		// empty read legitimate: the piece it had seen complete is gone.)
		w.problem("C10", "C10/woken-without-verification", "reader %d at position %d: Read returned 0 bytes and no error although the piece it waits for has not been verified, nothing was evicted since its last empty read and its context is live", i, rd.pos)
	}
	rd.pos += int64(rd.n)
	if rd.err == io.EOF && rd.pos != rd.ln {
		w.problem("C02", "C02/early-eof", "reader %d reported EOF at position %d of %d", i, rd.pos, rd.ln)
	}
}

// noteAbandon: if nobody is registered for the piece any more, every channel
// handed out for it counts as abandoned (it must be closed, and may be).
func (w *World) noteAbandon(idx uint32) {
	for k, v := range w.consumers {
		var pi, pr int
		fmt.Sscanf(k, "%d/%d", &pi, &pr)
		if uint32(pi) == idx && v > 0 {
			return
		}
	}
	for _, c := range w.chans {
		if c.piece == idx {
			c.abandoned = true
		}
	}
}

// checkRequests is the C10 oracle: priorities registered == the model's
// registrations; channels closed iff verified since or abandoned.
func (w *World) checkRequests() {
	t := w.t
	if w.loopDead || (w.cfg.Magnet && !t.InfoComplete()) {
		return
	}
	if len(w.readers) == 0 {
		got := map[string]int{}
		for idx, r := range t.requested.pieces {
			for _, p := range r.prio {
				got[fmt.Sprintf("%d/%d", idx, p)]++
			}
		}
		for k, v := range w.consumers {
			if v != got[k] {
				w.problem("C10", "C10/priorities-differ", "piece/priority %s is registered %d times in the torrent, consumers hold %d registrations", k, got[k], v)
			}
		}
		for k, v := range got {
			if w.consumers[k] != v {
				w.problem("C10", "C10/priorities-differ", "piece/priority %s is registered %d times in the torrent, consumers hold %d registrations", k, v, w.consumers[k])
			}
		}
	}
	if len(t.Event) > 0 {
		return
	}
	for _, c := range w.chans {
		if c.dead {
			continue
		}
		closed := false
		select {
		case <-c.ch:
			closed = true
		default:
		}
		verified := w.haves[c.piece] > c.havesAt
		if !closed && t.Pieces.Complete(c.piece) {
			// whenever it was handed out: nobody will ever close it now
			w.problem("C10", "C10/lost-wakeup/piece-complete", "a consumer holds an open completion channel for piece %d although the piece is verified and readable: it would wait for ever", c.piece)
		}
		if len(w.readers) > 0 {
			// real Readers hold registrations the model does not know: only
			// the verification clause is judged
			if !closed && verified {
				w.problem("C10", "C10/lost-wakeup", "piece %d has been verified but a consumer waiting for it was not woken", c.piece)
			}
			if closed {
				c.dead = true
			}
			continue
		}
		switch {
		case closed && !verified && !c.abandoned:
			w.problem("C10", "C10/spurious-wakeup", "a consumer waiting for piece %d was woken although the piece has not been verified and the piece is still wanted", c.piece)
		case !closed && verified:
			w.problem("C10", "C10/lost-wakeup", "piece %d has been verified but a consumer waiting for it was not woken", c.piece)
		case !closed && c.abandoned:
			w.problem("C10", "C10/abandoned-not-closed", "every request for piece %d was withdrawn but the completion channel was left open", c.piece)
		}
		if closed {
			c.dead = true
		}
	}
}

// inTransit reports whether some event or frame has not reached its destination.
func (w *World) inTransit() bool {
	if len(w.t.Event) > 0 || w.anyGated() {
		return true
	}
	for _, r := range w.remotes {
		if r.pendingOut() {
			return true
		}
		if !r.exited() || r.live() {
			if len(r.p.VerifParkedEvents()) > 0 {
				return true
			}
			if len(r.p.Event) > 0 {
				return true
			}
		}
	}
	return false
}

// ---------------------------------------------------------------------------
// frames received from storrent: decode and feed the monitors

func (r *remote) ids() rc.ExtIDs {
	return rc.ExtIDs{Pex: r.cfg.Pex, Metadata: r.cfg.Metadata, DontHave: r.cfg.DontHave, UploadOnly: 0}
}

func (r *remote) process() {
	r.mu.Lock()
	buf := r.inbuf
	stalled := r.stalled
	r.mu.Unlock()
	frames, used := rc.Split(buf)
	if used > 0 {
		r.mu.Lock()
		r.inbuf = r.inbuf[used:]
		r.mu.Unlock()
	}
	for _, f := range frames {
		m, err := rc.Decode(f, r.ids())
		r.frames++
		if err != nil {
			r.w.problem("C11", "C11/malformed-frame", "storrent sent a frame the reference codec rejects to remote %d: %x", r.idx, truncb(f))
			continue
		}
		r.onFrame(m, f)
	}
	if !stalled && !r.pendingOut() && !r.gated {
		if r.grace && !r.exited() {
			// While permissions were being revoked with frames in flight the
			// remote cannot tell which of storrent's requests were emitted
			// before storrent read the Choke (a choke discards those, BEP 3) and
			// which after.  Now that nothing is in flight, what storrent itself
			// no longer counts as requested has been discarded.
			st := r.p.VerifState()
			held := map[uint32]bool{}
			for _, c := range st.Requested {
				held[c] = true
			}
			var keep []rc.Msg
			for _, o := range r.outstanding {
				if held[r.w.chunkOf(o)] {
					keep = append(keep, o)
				}
			}
			r.outstanding = keep
		}
		r.grace = false
		r.resolvedStalled = nil
	}
}

func truncb(b []byte) []byte {
	if len(b) > 48 {
		return b[:48]
	}
	return b
}

func (r *remote) findOutstanding(i, b, l uint32) int {
	for k, o := range r.outstanding {
		if o.Index == i && o.Begin == b && o.Length == l {
			return k
		}
	}
	return -1
}

// onFrame is the reference monitor for everything storrent sends (C11, C16).
func (r *remote) onFrame(m rc.Msg, raw []byte) {
	w := r.w
	g := w.g
	n := uint32(g.npieces())
	metaKnown := !w.cfg.Magnet || w.t.InfoComplete()
	switch m.Kind {
	case rc.Bitfield:
		if r.gotBitfield {
			w.problem("C11", "C11/bitfield-twice", "a second Bitfield was sent to remote %d", r.idx)
		}
		if r.gotOther {
			w.problem("C11", "C11/bitfield-not-first", "Bitfield sent to remote %d after other messages", r.idx)
		}
		r.gotBitfield = true
		r.told = map[uint32]bool{}
		for i := uint32(0); i < n && int(i/8) < len(m.Data); i++ {
			if m.Data[i/8]&(0x80>>(i%8)) != 0 {
				r.told[i] = true
			}
		}
		if want := (int(n) + 7) / 8; len(m.Data) != want {
			w.problem("C11", "C11/bitfield-length", "Bitfield of %d bytes for %d pieces (must be %d)", len(m.Data), n, want)
		} else if n%8 != 0 && len(m.Data) > 0 {
			if m.Data[len(m.Data)-1]&(0xFF>>(n%8)) != 0 {
				w.problem("C11", "C11/bitfield-spare-bits", "Bitfield has spare bits set: %x", m.Data)
			}
		}
	case rc.HaveAll, rc.HaveNone:
		if !r.cfg.Fast {
			w.problem("C11", "C11/fast-message-to-non-fast-peer", "%s sent to remote %d which did not negotiate the Fast extension", m.Kind, r.idx)
		}
		r.gotOther = true
		r.told = map[uint32]bool{}
		if m.Kind == rc.HaveAll {
			for i := uint32(0); i < n; i++ {
				r.told[i] = true
			}
		}
	case rc.Have:
		r.gotOther = true
		if r.told == nil {
			r.told = map[uint32]bool{}
		}
		r.told[m.Index] = true
		if metaKnown && m.Index >= n {
			w.problem("C11", "C11/have-out-of-range", "Have %d sent, the torrent has %d pieces", m.Index, n)
		}
	case rc.ExtDontHave:
		delete(r.told, m.Index)
		if metaKnown && m.Index >= n {
			w.problem("C11", "C11/donthave-out-of-range", "DontHave %d sent, the torrent has %d pieces", m.Index, n)
		}
	case rc.ExtOther:
		w.problem("C11", "C11/unnegotiated-extended-id", "extended message with sub-id %d sent to remote %d, which asked for donthave=%d pex=%d metadata=%d", m.ID, r.idx, r.cfg.DontHave, r.cfg.Pex, r.cfg.Metadata)
	case rc.Ext0:
		if !r.cfg.Ext {
			w.problem("C11", "C11/extended-to-non-extended-peer", "extended handshake sent to remote %d which did not negotiate the extension protocol", r.idx)
		}
	case rc.Request:
		r.gotOther = true
		key := fmt.Sprintf("%d/%d/%d", m.Index, m.Begin, m.Length)
		switch {
		case m.Index >= n:
			w.problem("C11", "C11/request-bad-piece", "Request %s names a piece beyond the torrent (%d pieces)", key, n)
		case m.Begin%wchunk != 0:
			w.problem("C11", "C11/request-unaligned", "Request %s is not 16 KiB-aligned", key)
		case m.Begin >= g.pieceLen(m.Index):
			w.problem("C11", "C11/request-beyond-piece", "Request %s begins beyond the end of the piece (%d bytes)", key, g.pieceLen(m.Index))
		default:
			want := g.pieceLen(m.Index) - m.Begin
			if want > wchunk {
				want = wchunk
			}
			if m.Length != want {
				w.problem("C11", "C11/request-length", "Request %s: the block length must be %d", key, want)
			}
		}
		if m.Index < n && !r.adv[m.Index] && !r.grace {
			w.problem("C11", "C11/request-unadvertised", "Request %s for a piece remote %d does not advertise", key, r.idx)
		}
		if r.choking && !r.fastSet[m.Index] && !r.grace {
			w.problem("C11", "C11/request-while-choked", "Request %s sent to remote %d while choked (piece not allowed-fast)", key, r.idx)
		}
		if k := r.findOutstanding(m.Index, m.Begin, m.Length); k >= 0 {
			if r.grace {
				// the earlier copy was emitted before a choke / advertisement
				// change that we sent while stalled, and was implicitly dropped
				r.outstanding = append(r.outstanding[:k], r.outstanding[k+1:]...)
			} else {
				w.problem("C11", "C11/request-duplicate", "Request %s sent to remote %d while the same request is outstanding", key, r.idx)
			}
		}
		if r.grace && r.choking && !r.cfg.Fast {
			// emitted before storrent learnt of the choke we sent while
			// stalled: implicitly discarded (BEP 3), not outstanding
		} else {
			r.outstanding = append(r.outstanding, m)
		}
		limit := r.cfg.ReqQ
		if limit == 0 {
			limit = 250
		}
		if limit < 2 {
			limit = 2
		}
		if len(r.outstanding) > limit && !r.grace {
			w.problem("C11", "C11/queue-depth", "%d requests outstanding at remote %d, its queue depth is %d", len(r.outstanding), r.idx, limit)
		}
	case rc.Cancel:
		k := r.findOutstanding(m.Index, m.Begin, m.Length)
		if k < 0 {
			tolerated := false
			for j, q := range r.resolvedStalled {
				if q.Index == m.Index && q.Begin == m.Begin && q.Length == m.Length {
					r.resolvedStalled = append(r.resolvedStalled[:j], r.resolvedStalled[j+1:]...)
					tolerated = true
					break
				}
			}
			if !r.grace && !tolerated {
				w.problem("C11", "C11/cancel-not-outstanding", "Cancel %d/%d/%d sent to remote %d does not refer to an outstanding request", m.Index, m.Begin, m.Length, r.idx)
			}
		} else {
			r.outstanding = append(r.outstanding[:k], r.outstanding[k+1:]...)
		}
	case rc.Unchoke:
		r.unchokedByStorrent = true
		r.gotOther = true
	case rc.Choke:
		r.gotOther = true
		r.unchokedByStorrent = false
		if !r.cfg.Fast {
			// requests sent to a gated peer may be read by it only after it has
			// choked and unchoked again: to storrent they are then fresh requests
			for _, q := range r.pendingUp {
				if r.sentWhileGated[fmt.Sprintf("%d/%d/%d", q.Index, q.Begin, q.Length)] {
					r.crossedUp = append(r.crossedUp, q)
				}
			}
			r.pendingUp = nil
		}
	case rc.Piece:
		r.gotOther = true
		r.served++
		k := -1
		for j, q := range r.pendingUp {
			if q.Index == m.Index && q.Begin == m.Begin && int(q.Length) == len(m.Data) {
				k = j
				break
			}
		}
		key := fmt.Sprintf("%d/%d/%d", m.Index, m.Begin, len(m.Data))
		crossed := false
		if k < 0 {
			for j, q := range r.crossedUp {
				if q.Index == m.Index && q.Begin == m.Begin && int(q.Length) == len(m.Data) {
					r.crossedUp = append(r.crossedUp[:j], r.crossedUp[j+1:]...)
					crossed = true
					break
				}
			}
		}
		if crossed {
			// sent before our Cancel was read
		} else if k < 0 {
			w.problem("C16", "C16/piece-unrequested", "Piece %s sent to remote %d matches no request that is pending (not cancelled, not choked away, not already answered)", key, r.idx)
		} else {
			r.pendingUp = append(r.pendingUp[:k], r.pendingUp[k+1:]...)
		}
		if !r.unchokedByStorrent {
			w.problem("C16", "C16/piece-while-choking", "Piece %s sent to remote %d while storrent is choking it", key, r.idx)
		}
		off := int64(m.Index)*int64(g.PSize) + int64(m.Begin)
		if off < 0 || off+int64(len(m.Data)) > g.Length || m.Index >= n || !bytes.Equal(m.Data, w.truth[off:off+int64(len(m.Data))]) {
			w.problem("C01", "C01/upload-wrong-bytes", "Piece %s sent to remote %d does not carry the true content of that range", key, r.idx)
			w.problem("C16", "C16/piece-wrong-bytes", "Piece %s sent to remote %d does not carry the true content of that range", key, r.idx)
		}
	case rc.Reject:
		if !r.cfg.Fast {
			w.problem("C11", "C11/fast-message-to-non-fast-peer", "RejectRequest sent to remote %d which did not negotiate the Fast extension", r.idx)
		}
		// a reject first acknowledges a request we cancelled ourselves
		ack := false
		for j, q := range r.cancelledUp {
			if q.Index == m.Index && q.Begin == m.Begin && q.Length == m.Length {
				r.cancelledUp = append(r.cancelledUp[:j], r.cancelledUp[j+1:]...)
				ack = true
				break
			}
		}
		if !ack {
			for j, q := range r.pendingUp {
				if q.Index == m.Index && q.Begin == m.Begin && q.Length == m.Length {
					r.pendingUp = append(r.pendingUp[:j], r.pendingUp[j+1:]...)
					break
				}
			}
		}
	case rc.ExtMetadata:
		r.gotOther = true
		if m.MsgType == 0 {
			r.metaReqs = append(r.metaReqs, m.MPiece)
		}
	case rc.ExtPex:
		r.gotOther = true
		if r.pexKnown == nil {
			r.pexKnown = map[netip.AddrPort]bool{}
		}
		for _, d := range m.Dropped {
			if !r.pexKnown[d.Addr] {
				w.problem("C11", "C11/pex-world/drop-unannounced", "a PEX message to remote %d drops %v, which had not been announced to it", r.idx, d.Addr)
			}
			delete(r.pexKnown, d.Addr)
		}
		for _, a := range m.Added {
			if r.pexKnown[a.Addr] {
				w.problem("C11", "C11/pex-world/announced-twice", "a PEX message to remote %d announces %v, which it already knows from an earlier one", r.idx, a.Addr)
			}
			for k := range r.pexKnown {
				if k.Addr() == a.Addr.Addr() {
					w.problem("C11", "C11/pex-world/peer-announced-under-two-addresses", "remote %d is told about %v although the same peer is already announced to it as %v: when it leaves, at most one of them will be dropped", r.idx, a.Addr, k)
				}
			}
			r.pexKnown[a.Addr] = true
		}
	case rc.Interested, rc.NotInterested, rc.KeepAlive, rc.Port:
		if m.Kind != rc.KeepAlive {
			r.gotOther = true
		}
	}
}

// ---------------------------------------------------------------------------
// transitions

func (w *World) chunkOf(m rc.Msg) uint32 { return m.Index*w.g.cpp() + m.Begin/wchunk }

func maskBytes(mask, n int) []byte {
	b := make([]byte, (n+7)/8)
	for i := 0; i < n; i++ {
		if mask&(1<<i) != 0 {
			b[i/8] |= 0x80 >> (i % 8)
		}
	}
	return b
}

// apply executes one transition given by name.  Unknown or currently
// meaningless transitions return false (the BFS does not expand them).
func (w *World) apply(tr string) bool {
	f := strings.Split(tr, ":")
	arg := func(i int) int {
		if i < len(f) {
			v, _ := strconv.Atoi(f[i])
			return v
		}
		return 0
	}
	switch f[0] {
	case "adv":
		w.idle += time.Duration(arg(1)) * time.Second
	case "advms":
		w.idle += time.Duration(arg(1)) * time.Millisecond
	default:
		w.idle = 0
	}
	var r *remote
	if len(f) > 1 && arg(1) < len(w.remotes) && strings.IndexAny(f[0][:1], "abcdefghijklmnopqrstuvwxyz") == 0 {
		r = w.remotes[arg(1)]
	}
	n := w.g.npieces()
	switch f[0] {
	// --- remote -> storrent ------------------------------------------------
	case "bf": // bf:<remote>:<mask>
		if r.closed {
			return false
		}
		r.send(rc.Msg{Kind: rc.Bitfield, Data: maskBytes(arg(2), n)})
		r.adv = map[uint32]bool{}
		for i := 0; i < n; i++ {
			if arg(2)&(1<<i) != 0 {
				r.adv[uint32(i)] = true
			}
		}
		r.revoked()
	case "have":
		if r.closed {
			return false
		}
		r.send(rc.Msg{Kind: rc.Have, Index: uint32(arg(2))})
		if arg(2) < n {
			r.adv[uint32(arg(2))] = true
		}
	case "haveall":
		if r.closed || !r.cfg.Fast {
			return false
		}
		r.send(rc.Msg{Kind: rc.HaveAll})
		for i := 0; i < n; i++ {
			r.adv[uint32(i)] = true
		}
	case "havenone":
		if r.closed || !r.cfg.Fast {
			return false
		}
		r.send(rc.Msg{Kind: rc.HaveNone})
		r.adv = map[uint32]bool{}
		r.revoked()
	case "donthave":
		if r.closed || !r.cfg.Ext {
			return false
		}
		r.send(rc.Msg{Kind: rc.ExtDontHave, ID: protocol.ExtDontHave, Index: uint32(arg(2))})
		delete(r.adv, uint32(arg(2)))
		r.revoked()
	case "unchoke":
		if r.closed || !r.choking {
			return false
		}
		r.send(rc.Msg{Kind: rc.Unchoke})
		r.choking = false
	case "choke":
		if r.closed || r.choking {
			return false
		}
		r.send(rc.Msg{Kind: rc.Choke})
		r.choking = true
		r.revoked()
		if r.cfg.Fast {
			// a conforming Fast peer rejects what it will not serve
			var keep []rc.Msg
			for _, o := range r.outstanding {
				if r.fastSet[o.Index] {
					keep = append(keep, o)
					continue
				}
				r.send(rc.Msg{Kind: rc.Reject, Index: o.Index, Begin: o.Begin, Length: o.Length})
			}
			r.outstanding = keep
		} else {
			r.outstanding = nil
		}
	case "chokesilent": // a Fast peer that chokes without rejecting (buggy but seen in the wild)
		if r.closed || r.choking || !r.cfg.Fast {
			return false
		}
		r.send(rc.Msg{Kind: rc.Choke})
		r.choking = true
		r.revoked()
	case "allowfast":
		if r.closed || !r.cfg.Fast {
			return false
		}
		r.send(rc.Msg{Kind: rc.AllowedFast, Index: uint32(arg(2))})
		r.fastSet[uint32(arg(2))] = true
	case "ans": // ans:<remote>:<oldest|newest>:<kind>
		if r.closed || len(r.outstanding) == 0 {
			return false
		}
		k := 0
		if f[2] == "new" {
			k = len(r.outstanding) - 1
			if k == 0 {
				return false // same as old
			}
		}
		o := r.outstanding[k]
		off := int64(o.Index)*int64(w.g.PSize) + int64(o.Begin)
		end := off + int64(o.Length)
		if end > w.g.Length {
			end = w.g.Length
		}
		data := append([]byte{}, w.truth[off:end]...)
		m := rc.Msg{Kind: rc.Piece, Index: o.Index, Begin: o.Begin, Data: data}
		consumed := true
		switch f[3] {
		case "full":
		case "short":
			if len(data) < 2 {
				return false
			}
			m.Data = data[:len(data)-1]
		case "empty":
			m.Data = nil
		case "long":
			e2 := off + 2*wchunk
			if e2 > w.g.Length {
				e2 = w.g.Length
			}
			if e2 <= end {
				return false
			}
			m.Data = append([]byte{}, w.truth[off:e2]...)
			w.sawOverlong = true
		case "corrupt":
			for i := range m.Data {
				m.Data[i] = ^m.Data[i]
			}
		case "otherbegin":
			m.Begin = o.Begin ^ wchunk
			consumed = false
		case "otherpiece":
			m.Index = (o.Index + 1) % uint32(n)
			consumed = false
		case "unaligned":
			m.Begin = o.Begin + 1
			consumed = false
		default:
			return false
		}
		r.send(m)
		if r.stalled || r.gated {
			r.resolvedStalled = append(r.resolvedStalled, o)
		}
		if consumed {
			r.outstanding = append(r.outstanding[:k], r.outstanding[k+1:]...)
		} else if j := r.findOutstanding(m.Index, m.Begin, o.Length); j >= 0 {
			r.outstanding = append(r.outstanding[:j], r.outstanding[j+1:]...)
		}
	case "ansq": // eager data: a block storrent has queued for this peer but not yet requested
		if r.closed || r.exited() {
			return false
		}
		st := r.p.VerifState()
		if len(st.Queue) == 0 {
			return false
		}
		c := st.Queue[0]
		idx, beg := c/w.g.cpp(), (c%w.g.cpp())*wchunk
		off := int64(c) * wchunk
		r.send(rc.Msg{Kind: rc.Piece, Index: idx, Begin: beg, Data: append([]byte{}, w.truth[off:off+int64(w.g.chunkLen(c))]...)})
	case "rej":
		if r.closed || !r.cfg.Fast || len(r.outstanding) == 0 {
			return false
		}
		k := 0
		if f[2] == "new" {
			k = len(r.outstanding) - 1
			if k == 0 {
				return false
			}
		}
		o := r.outstanding[k]
		r.send(rc.Msg{Kind: rc.Reject, Index: o.Index, Begin: o.Begin, Length: o.Length})
		if r.stalled || r.gated {
			r.resolvedStalled = append(r.resolvedStalled, o)
		}
		r.outstanding = append(r.outstanding[:k], r.outstanding[k+1:]...)
	case "close":
		if r.closed {
			return false
		}
		r.closeConn()
	case "stall":
		if r.closed || r.stalled {
			return false
		}
		r.mu.Lock()
		r.stalled = true
		r.mu.Unlock()
	case "resume":
		if r.closed || !r.stalled {
			return false
		}
		r.mu.Lock()
		r.stalled = false
		r.cond.Broadcast()
		r.mu.Unlock()
	// upload side (C16)
	case "interested":
		if r.closed || r.sentInterested {
			return false
		}
		r.send(rc.Msg{Kind: rc.Interested})
		r.sentInterested = true
	case "notinterested":
		if r.closed || !r.sentInterested {
			return false
		}
		r.send(rc.Msg{Kind: rc.NotInterested})
		r.sentInterested = false
		// NotInterested does not cancel requests: they stay pending until
		// storrent's Choke (or its rejects) arrive; a Piece written before
		// storrent read this message is still an answer to its request
	case "req": // req:<remote>:<index>:<begin>:<length>
		if r.closed {
			return false
		}
		m := rc.Msg{Kind: rc.Request, Index: uint32(arg(2)), Begin: uint32(arg(3)), Length: uint32(arg(4))}
		r.send(m)
		if r.unchokedByStorrent || r.gated {
			// (a gated peer reads the request at a later point of its own choosing,
			// possibly after it has handled an unchoke command that is already queued)
			r.pendingUp = append(r.pendingUp, m)
		}
		if r.gated {
			if r.sentWhileGated == nil {
				r.sentWhileGated = map[string]bool{}
			}
			r.sentWhileGated[fmt.Sprintf("%d/%d/%d", m.Index, m.Begin, m.Length)] = true
		}
	case "ucancel": // cancel our oldest pending upload request
		if r.closed || len(r.pendingUp) == 0 {
			return false
		}
		q := r.pendingUp[0]
		// a Cancel can cross a Piece: if storrent has already taken the request
		// out of its upload queue (the Piece is with the writer, or on the wire
		// of a remote that has stopped reading) the answer is still an answer
		// to a request that had not been cancelled when it was sent
		queued := false
		if !r.exited() {
			for _, u := range r.p.VerifState().Upload {
				if u.Index == q.Index && u.Begin == q.Begin && u.Length == q.Length {
					queued = true
				}
			}
		}
		if !queued || r.gated {
			// (a gated peer has not read the Cancel yet: its upload tick may still serve the request)
			r.crossedUp = append(r.crossedUp, q)
		}
		r.send(rc.Msg{Kind: rc.Cancel, Index: q.Index, Begin: q.Begin, Length: q.Length})
		r.pendingUp = r.pendingUp[1:]
		r.cancelledUp = append(r.cancelledUp, q)
		r.grace = r.grace || r.stalled || r.gated
	case "ucancelx": // a Cancel that matches nothing
		if r.closed {
			return false
		}
		r.send(rc.Msg{Kind: rc.Cancel, Index: 0, Begin: 0, Length: 7})
	case "flood": // flood:<remote>:<count>
		if r.closed {
			return false
		}
		for i := 0; i < arg(2); i++ {
			m := rc.Msg{Kind: rc.Request, Index: 0, Begin: 0, Length: wchunk}
			r.send(m)
			if r.unchokedByStorrent {
				r.pendingUp = append(r.pendingUp, m)
			}
		}
	case "manswer": // the remote answers every metadata request it has received with the true block
		if r.closed || len(r.metaReqs) == 0 {
			return false
		}
		for _, pc := range r.metaReqs {
			off := int(pc) * wchunk
			if off >= len(w.info) {
				r.send(rc.Msg{Kind: rc.ExtMetadata, ID: protocol.ExtMetadata, MsgType: 2, MPiece: pc})
				continue
			}
			end := off + wchunk
			if end > len(w.info) {
				end = len(w.info)
			}
			r.send(rc.Msg{Kind: rc.ExtMetadata, ID: protocol.ExtMetadata, MsgType: 1, MPiece: pc, TotalSize: uint32(len(w.info)), HasTotal: true, Data: append([]byte{}, w.info[off:end]...)})
			if w.metaDelivered == nil {
				w.metaDelivered = map[uint32]bool{}
			}
			w.metaDelivered[pc] = true
		}
		r.metaReqs = nil
	case "vote": // vote:<remote>:<size|true>  the remote's (first) extended handshake announces a metadata size
		if r.closed || r.sentExt0 || !r.cfg.Ext {
			return false
		}
		ms := uint32(len(w.info))
		if f[2] != "true" {
			ms = uint32(arg(2))
		}
		r.sendExt0(ms)
	case "mdata": // mdata:<remote>:<index>:<content>:<total>:<length>   unsolicited / hostile metadata block
		if r.closed {
			return false
		}
		idx := uint32(arg(2))
		size := len(w.info)
		off := int(idx) * wchunk
		tail := size - off
		if tail > wchunk {
			tail = wchunk
		}
		if tail < 0 {
			tail = 0
		}
		l := tail
		switch f[5] {
		case "tail":
		case "tail-1":
			l = tail - 1
		case "tail+1":
			l = tail + 1
		case "chunk":
			l = wchunk
		case "chunk+1":
			l = wchunk + 1
		case "0":
			l = 0
		case "1":
			l = 1
		}
		if l < 0 {
			return false
		}
		data := make([]byte, l)
		for i := range data {
			if f[3] == "true" && off+i < size {
				data[i] = w.info[off+i]
			} else {
				data[i] = 0xEE
			}
		}
		total := uint32(size)
		switch f[4] {
		case "true":
		case "0":
			total = 0
		case "other":
			total = uint32(size) + 1
		default: // an explicit number
			total = uint32(arg(4))
		}
		r.send(rc.Msg{Kind: rc.ExtMetadata, ID: protocol.ExtMetadata, MsgType: 1, MPiece: idx, TotalSize: total, HasTotal: total != 0, Data: data})
		if f[3] != "true" || f[5] != "tail" {
			w.corruptions++
		}
	case "mreject":
		if r.closed || len(r.metaReqs) == 0 {
			return false
		}
		r.send(rc.Msg{Kind: rc.ExtMetadata, ID: protocol.ExtMetadata, MsgType: 2, MPiece: r.metaReqs[0]})
		r.metaReqs = r.metaReqs[1:]
	case "raw": // raw:<remote>:<hex>  (hostile / arbitrary frame)
		if r.closed {
			return false
		}
		b := make([]byte, len(f[2])/2)
		fmt.Sscanf(f[2], "%x", &b)
		// a raw extended handshake renegotiates the remote's extension ids:
		// the monitor must decode what storrent sends it accordingly
		if len(b) > 6 && b[4] == 20 && b[5] == 0 {
			if m, err := rc.Decode(b, rc.StorrentIDs); err == nil && m.Kind == rc.Ext0 && m.HasM {
				r.cfg.Pex, r.cfg.Metadata, r.cfg.DontHave = m.M["ut_pex"], m.M["ut_metadata"], m.M["lt_donthave"]
			}
		}
		for _, o := range w.remotes {
			// (a remote that storrent dropped because of its own earlier message)
			o.goneBefore = o.exited()
		}
		a0 := allocNowT()
		r.sendRaw(b)
		w.transitions++
		w.settle()
		// C05: memory in proportion to the message, not to its numeric fields
		// (generous: 64 x frame + 4 MiB; the violations sought are 3-6 orders
		// of magnitude above the line)
		if d := allocNowT() - a0; d > 64*uint64(len(b))+4<<20 {
			kind := fmt.Sprintf("id%d", b[4])
			if len(b) > 5 && b[4] == 20 {
				kind = fmt.Sprintf("ext%d", b[5])
			}
			meta := "known"
			if w.cfg.Magnet && !w.t.InfoComplete() {
				meta = "unknown"
			}
			w.problem("C05", "C05/alloc/"+kind+"/metadata-"+meta, "handling a %d-byte frame (%x) allocated %d bytes", len(b), truncb(b), d)
		}
		w.checkOthersAlive(r)
		return true
	// --- environment -------------------------------------------------------
	case "adv": // adv:<seconds>
		time.Sleep(time.Duration(arg(1)) * time.Second)
	case "advms":
		time.Sleep(time.Duration(arg(1)) * time.Millisecond)
	// --- torrent side -------------------------------------------------------
	case "ev":
		if len(w.t.Event) == 0 {
			return false
		}
		w.deliver(1)
	case "drain":
		if len(w.t.Event) == 0 {
			return false
		}
		w.deliver(-1)
	case "tick":
		w.call("periodicRequest", func() { periodicRequest(w.ctx, w.t) })
	case "utick":
		w.call("maybeUnchoke", func() { maybeUnchoke(w.t, true) })
	case "mtick":
		if w.t.infoComplete != 0 {
			return false
		}
		w.call("requestMetadata", func() { requestMetadata(w.t, nil) })
	case "want": // want:<piece>:<prio>
		w.handle(peer.TorRequest{Index: uint32(arg(1)), Priority: int8(arg(2)), Request: true})
		w.consumers[fmt.Sprintf("%d/%d", arg(1), arg(2))]++
	case "unwant":
		k := fmt.Sprintf("%d/%d", arg(1), arg(2))
		if w.consumers[k] == 0 {
			return false
		}
		w.consumers[k]--
		w.handle(peer.TorRequest{Index: uint32(arg(1)), Priority: int8(arg(2)), Request: false})
	case "creq": // creq:<piece>:<prio>:<want 0|1>   a consumer's request reaches the loop
		idx, prio := uint32(arg(1)), int8(arg(2))
		var ch chan (<-chan struct{})
		if arg(3) != 0 {
			ch = make(chan (<-chan struct{}), 1)
		}
		before := w.haves[idx]
		w.handle(peer.TorRequest{Index: idx, Priority: prio, Request: true, Ch: ch})
		w.consumers[fmt.Sprintf("%d/%d", idx, prio)]++
		if ch != nil {
			select {
			case done, ok := <-ch:
				if ok && done != nil {
					w.chans = append(w.chans, &wchan{piece: idx, ch: done, havesAt: before})
				}
			default:
				w.problem("C10", "C10/no-reply", "a piece request with a reply channel was handled without a reply")
			}
		}
	case "cdel":
		k := fmt.Sprintf("%d/%d", arg(1), arg(2))
		if w.consumers[k] == 0 {
			return false
		}
		w.consumers[k]--
		w.handle(peer.TorRequest{Index: uint32(arg(1)), Priority: int8(arg(2)), Request: false})
		w.noteAbandon(uint32(arg(1)))
	case "complete": // the piece's blocks arrive and it is hashed (real finalisePiece)
		idx := uint32(arg(1))
		if w.t.Pieces.Complete(idx) {
			return false
		}
		s := int64(idx) * int64(w.g.PSize)
		w.t.Pieces.AddData(idx, 0, append([]byte{}, w.truth[s:s+int64(w.g.pieceLen(idx))]...), ^uint32(0))
		w.call("finalisePiece", func() { finalisePiece(w.t, idx) })
	case "dupcomplete", "dupfail": // the piece's last block arrives from two sources: two verifications of the same piece overlap
		idx := uint32(arg(1))
		if w.t.Pieces.Complete(idx) {
			return false
		}
		s := int64(idx) * int64(w.g.PSize)
		d := append([]byte{}, w.truth[s:s+int64(w.g.pieceLen(idx))]...)
		if f[0] == "dupfail" {
			d[0] ^= 0xFF
		}
		w.t.Pieces.AddData(idx, 0, d, ^uint32(0))
		w.call("finalisePiece", func() { finalisePiece(w.t, idx); finalisePiece(w.t, idx) })
	case "fail": // a corrupt piece is hashed and discarded
		idx := uint32(arg(1))
		if w.t.Pieces.Complete(idx) {
			return false
		}
		s := int64(idx) * int64(w.g.PSize)
		d := append([]byte{}, w.truth[s:s+int64(w.g.pieceLen(idx))]...)
		d[0] ^= 0xFF
		w.t.Pieces.AddData(idx, 0, d, ^uint32(0))
		w.call("finalisePiece", func() { finalisePiece(w.t, idx) })
	case "setconf":
		w.handle(peer.TorSetConf{Conf: peer.TorConf{DhtMode: config.DhtNone, UseWebseeds: arg(1) != 0}})
	case "ropen": // ropen:<offset>:<length>
		if len(w.readers) >= 2 {
			return false
		}
		ctx, cancel := context.WithCancel(w.ctx)
		nr := w.t.NewReader(ctx, int64(arg(1)), int64(arg(2)))
		runtime.SetFinalizer(nr, nil) // a finalizer would touch bubble channels from outside the bubble
		w.readers = append(w.readers, &wreader{r: nr, ctx: ctx, cancel: cancel, off: int64(arg(1)), ln: int64(arg(2))})
	case "rread": // rread:<reader>:<buffer size>
		if arg(1) >= len(w.readers) {
			return false
		}
		rd := w.readers[arg(1)]
		if rd.busy || rd.closed {
			return false
		}
		rd.busy = true
		rd.done = make(chan struct{})
		rd.buf = make([]byte, arg(2))
		go func() {
			rd.n, rd.err = rd.r.Read(rd.buf)
			close(rd.done)
		}()
	case "rseek": // rseek:<reader>:<position>
		if arg(1) >= len(w.readers) || w.readers[arg(1)].busy || w.readers[arg(1)].closed {
			return false
		}
		rd := w.readers[arg(1)]
		if p, err := rd.r.Seek(int64(arg(2)), io.SeekStart); err == nil {
			rd.pos = p
		}
	case "rclose":
		if arg(1) >= len(w.readers) || w.readers[arg(1)].busy || w.readers[arg(1)].closed {
			return false
		}
		rd := w.readers[arg(1)]
		rd.closed = true
		go func() { rd.r.Close() }()
	case "rcancel":
		if arg(1) >= len(w.readers) || w.readers[arg(1)].closed {
			return false
		}
		w.readers[arg(1)].cancel()
	case "wsmode": // wsmode:<server behaviour>  how the web seed answers from now on
		if w.seed == nil {
			return false
		}
		w.seed.mu.Lock()
		same := w.seed.mode == f[1]
		w.seed.mode = f[1]
		w.seed.mu.Unlock()
		if same {
			return false
		}
	case "evict":
		cnt := w.t.Pieces.Expire(0, nil, func(i uint32) { w.t.Have(i, false) })
		if cnt == 0 {
			return false
		}
		w.evictions++
	case "treq": // treq:<piece>:<prio>  a consumer asks for the piece through the exported Torrent.Request (which notes the access)
		idx := uint32(arg(1))
		if int(idx) >= n {
			return false
		}
		done := make(chan struct{})
		go func() {
			w.t.Request(idx, int8(arg(2)), true, false)
			close(done)
		}()
		synctest.Wait()
		w.deliver(-1)
		<-done
		if !w.t.Pieces.Complete(idx) {
			w.consumers[fmt.Sprintf("%d/%d", idx, arg(2))]++
		}
		if w.access == nil {
			w.access = map[uint32]mono.Time{}
		}
		w.access[idx] = mono.Now()
	case "evictone": // an eviction pass that has to free at least one byte: the least recently accessed piece goes first
		before := map[uint32]bool{}
		for i := 0; i < n; i++ {
			if w.t.Pieces.Complete(uint32(i)) {
				before[uint32(i)] = true
			}
		}
		if len(before) == 0 {
			return false
		}
		w.t.Pieces.Expire(w.t.Pieces.Bytes()-1, nil, func(i uint32) { w.t.Have(i, false) })
		w.evictions++
		for e := range before {
			if w.t.Pieces.Complete(e) {
				continue
			}
			for k := range before {
				if w.t.Pieces.Complete(k) && w.access[k].Before(w.access[e]) {
					w.problem("C03", "C03/eviction-not-lru", "piece %d (last asked for in second %d) was evicted while piece %d (last asked for in second %d, i.e. earlier) was kept", e, w.access[e], k, w.access[k])
				}
			}
		}
	case "cmd": // cmd:<remote>:<chunk>  the scheduler commands this peer to fetch one more block (real request())
		c := uint32(arg(2))
		if r.exited() || int(c) >= w.g.nchunks() || !r.adv[c/w.g.cpp()] || w.t.Pieces.Complete(c/w.g.cpp()) {
			return false
		}
		w.call("request", func() { request(w.t, r.p, []uint32{c}) })
	case "unchokepeer": // the torrent decides to unchoke / choke remote k directly
		writePeer(r.p, peer.PeerUnchoke{Unchoke: true})
	case "chokepeer":
		writePeer(r.p, peer.PeerUnchoke{Unchoke: false})
	case "stuff": // stuff:<remote>  the torrent has sent this (gated, hence not draining) peer so many commands that its queue is full
		if r == nil || !r.gated || r.exited() {
			return false
		}
		for len(r.p.Event) < cap(r.p.Event) {
			select {
			case r.p.Event <- peer.PeerRequest{}:
			default:
			}
		}
	case "fastlink": // fastlink:<remote>  the link to this remote has been measured fast and long (see peer.VerifFastLink)
		if r == nil || r.exited() {
			return false
		}
		r.p.VerifFastLink()
	case "gate": // gate:<remote>  from now on the peer's main loop takes only the arms the harness names
		if r == nil || r.gated || r.exited() || !w.cfg.Gates {
			return false
		}
		w.gateMu.Lock()
		r.gated = true
		w.gateMu.Unlock()
		// one harmless round trip makes the peer leave its current select and park at the gate
		r.p.GetStatus()
	case "ungate":
		if r == nil || !r.gated {
			return false
		}
		w.gateMu.Lock()
		r.gated = false
		w.gateMu.Unlock()
		select {
		case r.gate <- -1:
		default:
		}
	case "pstep": // pstep:<remote>:<arm>
		if r == nil || !r.gated || r.exited() {
			return false
		}
		select {
		case r.gate <- arg(2):
		default:
			return false
		}
		synctest.Wait()
		select {
		case ok := <-r.gateReply:
			if !ok {
				return false
			}
		default:
			// the peer is not at the gate (it has exited, or is inside a handler)
			select {
			case <-r.gate:
			default:
			}
			return false
		}
	case "addpeer":
		if len(w.remotes) >= 3 {
			return false
		}
		pc := peerCfg{Fast: arg(1)&1 != 0, Ext: arg(1)&2 != 0, DontHave: 7, Pex: 9, Metadata: 8}
		if arg(1)&4 != 0 {
			pc.ExtPort = 7777 // names another listening port than the one it was dialled on
		}
		w.addPeer(len(w.remotes), pc)
	default:
		panic("world: unknown transition " + tr)
	}
	w.transitions++
	w.settle()
	if w.skip {
		w.skip = false
		return false
	}
	return true
}

// checkOthersAlive: whatever remote r sent, at worst r itself is disconnected.
func (w *World) checkOthersAlive(r *remote) {
	if w.loopDead {
		return
	}
	for _, o := range w.remotes {
		if o != r && !o.closed && o.exited() && !o.goneBefore {
			w.problem("C05", "C05/other-peer-dropped", "after a message from remote %d, the connection to remote %d was dropped", r.idx, o.idx)
		}
	}
}

// revoked notes that a permission (advertisement, unchoke) was just withdrawn:
// frames emitted before storrent learns of it are legitimate.  At quiescence,
// unstalled, nothing can still be in flight, so the grace only lasts while the
// remote's inbound side is stalled.
func (r *remote) revoked() {
	// (a gated peer has not handled what the remote sends it either)
	if r.stalled || r.gated {
		r.grace = true
	}
}

// ---------------------------------------------------------------------------
// oracles evaluated at quiescent states

func (w *World) checkInvariants() {
	if _, _, dbl := vpool.Stats(); dbl > 0 {
		w.problem("C01", "C01/block-buffer-released-twice", "a 16 KiB block buffer was handed back to protocol's buffer pool while it was already in it (%d times): its next two users share memory, e.g. a verified block waiting to be written to a peer and an unverified block being received", dbl)
	}
	t := w.t
	if w.loopDead {
		return
	}
	w.checkMetadata()
	w.checkRequests()
	// C16: accounting of unchoked peers; bounded upload queue
	cnt := 0
	for _, r := range w.remotes {
		st := r.p.VerifState()
		if !r.exited() && st.AmUnchoking {
			cnt++
		}
		if len(st.Upload) > 250 {
			w.problem("C16", "C16/upload-queue-unbounded", "remote %d has %d upload requests queued (limit 250)", r.idx, len(st.Upload))
		}
		// C03: an evicted piece is no longer advertised to a peer that can be told so
		// (lt_donthave); judged when nothing is in transit towards this remote
		if !r.exited() && !r.closed && !r.stalled && !r.gated && !r.pendingOut() && len(r.p.Event) == 0 && st.WriterLen == 0 && len(w.t.Event) == 0 && r.cfg.DontHave != 0 && r.sentExt0 && (!w.cfg.Magnet || w.t.InfoComplete()) {
			for i := range r.told {
				if int(i) < w.g.npieces() && !w.t.Pieces.Complete(i) {
					w.problem("C03", "C03/evicted-piece-still-advertised", "piece %d is no longer held (evicted or discarded) but remote %d, which negotiated lt_donthave, has not been told: storrent still advertises it", i, r.idx)
				}
			}
		}
		if !r.exited() && !r.closed && !r.stalled && !r.pendingOut() && len(r.p.Event) == 0 && st.WriterLen == 0 && st.AmUnchoking != r.unchokedByStorrent {
			w.problem("C16", "C16/choke-state-mismatch", "storrent believes it is unchoking=%v remote %d, the wire says %v", st.AmUnchoking, r.idx, r.unchokedByStorrent)
		}
	}
	if nu := peer.VerifNumUnchoking(); int(nu) != cnt {
		w.problem("C16", "C16/num-unchoking", "NumUnchoking()=%d but %d live peers are being unchoked", nu, cnt)
	}
	if w.inTransit() {
		return
	}
	if w.cfg.Magnet && !t.InfoComplete() {
		return
	}
	// C09: availability
	n := w.g.npieces()
	for i := 0; i < n; i++ {
		want := 0
		for _, r := range w.remotes {
			if r.live() && r.adv[uint32(i)] {
				want++
			}
		}
		got := int(available(t, uint32(i)))
		if got != want {
			w.problem("C09", "C09/available", "available[%d]=%d but %d connected peers advertise the piece", i, got, want)
		}
	}
	// C09: in-flight
	nc := w.g.nchunks()
	for c := 0; c < nc; c++ {
		want := 0
		for _, r := range w.remotes {
			if r.exited() {
				continue
			}
			st := r.p.VerifState()
			for _, q := range st.Queue {
				if int(q) == c {
					want++
				}
			}
			for _, q := range st.Requested {
				if int(q) == c {
					want++
				}
			}
		}
		if c < len(t.inFlight) && int(t.inFlight[c]) != want {
			// the stable key names the direction of the error and, where the
			// history contains one, the unusual stimulus that precedes it
			key := "C09/inflight-leak"
			if int(t.inFlight[c]) < want {
				key = "C09/inflight-undercount"
			}
			if w.sawOverlong {
				key += "/after-overlong-piece"
			}
			w.problem("C09", key, "inFlight[%d]=%d but %d requests for the block are outstanding at peers", c, t.inFlight[c], want)
		}
	}
	// C01 (consumer): whatever the store serves is true content
	w.checkStore()
}

// checkMetadata: C12 safety.  Metadata is complete only if authentic and sane.
func (w *World) checkMetadata() {
	t := w.t
	if w.cfg.Magnet && !t.InfoComplete() && w.cfg.InfoKind == "" && w.corruptions == 0 && !w.loopDead && !w.inTransit() {
		// only authentic blocks were ever sent, every block has been delivered
		// and handled, every vote names the true size: the metadata is complete
		nb := (len(w.info) + wchunk - 1) / wchunk
		all := nb > 0
		for i := 0; i < nb; i++ {
			if !w.metaDelivered[uint32(i)] {
				all = false
			}
		}
		for s := range t.infoSizeVotes {
			if s != uint32(len(w.info)) {
				all = false
			}
		}
		if all {
			w.problem("C12", "C12/authentic-metadata-not-accepted", "honest peers have delivered every block of the true info dictionary (%d bytes, %d blocks), nothing else was ever sent, and the metadata is not complete", len(w.info), nb)
		}
	}
	if !w.cfg.Magnet || !t.InfoComplete() {
		return
	}
	if w.cfg.InfoKind != "" {
		w.problem("C12", "C12/degenerate-metadata-accepted/"+w.cfg.InfoKind, "the torrent became usable with an authentic but inconsistent info dictionary (%s)", w.cfg.InfoKind)
	}
	h := sha1.Sum(t.Info)
	if !bytes.Equal(h[:], t.Hash) {
		w.problem("C12", "C12/forged-metadata-accepted", "the torrent became usable with an info dictionary whose SHA-1 (%x) is not the info-hash (%v)", h, t.Hash)
	}
	if !bytes.Equal(t.Info, w.info) {
		w.problem("C12", "C12/metadata-differs", "the accepted info dictionary differs from the true one")
	}
	if g := geometry(t); g != "" {
		w.problem("C12", "C12/geometry", "metadata accepted with inconsistent geometry: %s", g)
	}
}

func (w *World) checkStore() {
	if w.cfg.Magnet && !w.t.InfoComplete() {
		return
	}
	buf := make([]byte, w.g.PSize)
	for i := 0; i < w.g.npieces(); i++ {
		off := int64(i) * int64(w.g.PSize)
		nread, _ := w.t.Pieces.ReadAt(buf, off)
		if nread > 0 && !bytes.Equal(buf[:nread], w.truth[off:off+int64(nread)]) {
			w.problem("C01", "C01/store-wrong-bytes", "piece %d is readable but does not hold the true content", i)
		}
	}
}

// finish closes every connection, lets everything drain and checks the
// end-of-path clauses: both tables all-zero, nobody unchoked, nothing leaked.
func (w *World) finish() {
	w.ungateAll()
	if w.loopDead {
		return
	}
	w.finishConsumers()
	for _, r := range w.remotes {
		if !r.closed {
			r.closeConn()
		}
	}
	synctest.Wait()
	w.deliver(-1)
	// let the peers' exit paths (write deadlines, tickers) run out
	time.Sleep(3 * time.Second)
	synctest.Wait()
	w.deliver(-1)
	for _, r := range w.remotes {
		r.process()
		if !r.exited() {
			w.problem("C17", "C17/peer-did-not-exit", "remote %d: the peer goroutine is still running after its connection was closed", r.idx)
		}
	}
	t := w.t
	if len(t.peers) != 0 {
		w.problem("C09", "C09/peers-left", "%d peers still listed after every connection was closed", len(t.peers))
	}
	if !w.cfg.Magnet || t.InfoComplete() {
		for i, a := range t.available {
			if a != 0 {
				w.problem("C09", "C09/available-nonzero-at-end", "available[%d]=%d with nobody connected", i, a)
			}
		}
		for c, v := range t.inFlight {
			if v != 0 {
				key := "C09/inflight-nonzero-at-end"
				if w.sawOverlong {
					key += "/after-overlong-piece"
				}
				w.problem("C09", key, "inFlight[%d]=%d with nobody connected and nothing outstanding", c, v)
			}
		}
	}
	if nu := peer.VerifNumUnchoking(); nu != 0 {
		w.problem("C16", "C16/num-unchoking-at-end", "NumUnchoking()=%d after every peer has disconnected", nu)
	}
	for _, r := range w.remotes {
		if ev := r.p.VerifParkedEvents(); len(ev) > 0 && !w.loopDead {
			w.problem("C09", "C09/events-left-in-exited-peer", "remote %d exited with %d events it never handed to the torrent", r.idx, len(ev))
		}
	}
}

// finishConsumers: every consumer moves on; a piece must remain requested only
// as long as somebody (or the idle prefetcher) wants it.
func (w *World) finishConsumers() {
	if len(w.consumers) == 0 && len(w.readers) == 0 {
		return
	}
	for k, v := range w.consumers {
		var pi, pr int
		fmt.Sscanf(k, "%d/%d", &pi, &pr)
		for ; v > 0; v-- {
			w.handle(peer.TorRequest{Index: uint32(pi), Priority: int8(pr), Request: false})
		}
		w.consumers[k] = 0
	}
	for _, rd := range w.readers {
		rd.cancel()
	}
	synctest.Wait()
	w.deliver(-1)
	for i, rd := range w.readers {
		if rd.busy {
			select {
			case <-rd.done:
				rd.busy = false
			default:
				w.problem("C02", "C02/read-hangs-after-cancel", "reader %d: a blocked Read did not return after its context was cancelled", i)
				continue
			}
		}
		if !rd.closed {
			rd.closed = true
			done := make(chan struct{})
			go func() { rd.r.Close(); close(done) }()
			synctest.Wait()
			w.deliver(-1)
			select {
			case <-done:
			default:
				w.problem("C17", "C17/reader-close-hangs", "reader %d: Close did not return", i)
			}
		}
	}
	synctest.Wait()
	w.deliver(-1)
	if w.loopDead {
		return
	}
	for idx, r := range w.t.requested.pieces {
		if len(r.prio) > 0 {
			where := ""
			if idx == 0 {
				where = "/piece0"
			}
			w.problem("C10", "C10/leaked-priority"+where, "after every consumer withdrew and every reader was closed, piece %d is still requested at priorities %v", idx, r.prio)
		}
	}
	for _, c := range w.chans {
		select {
		case <-c.ch:
		default:
			w.problem("C10", "C10/abandoned-not-closed", "a completion channel for piece %d is still open after every consumer has gone", c.piece)
		}
	}
}

// dispose releases what the world holds so that executions do not leak into each other.
func (w *World) dispose() {
	w.ungateAll()
	w.cancel()
	close(w.t.Done)
	for _, r := range w.remotes {
		if !r.closed {
			r.closeConn()
		}
	}
	synctest.Wait()
	w.t.Pieces.Del()
	if d := alloc.Bytes() - w.allocBase; d != 0 {
		w.problem("C03", "C03/world-leak", "%d bytes of piece memory still accounted after the torrent's store was deleted", d)
	}
}

// ctlSigs returns the control state of storrent's own goroutines in this
// bubble: for each goroutine that has frames in repository code (not harness
// code), the file:line list of those frames.  The world is quiescent when this
// is called (synctest.Wait has returned), so every goroutine is parked and the
// dump is stable.
var stackBuf = make([]byte, 4<<20)

func ctlSigs() []string {
	n := runtime.Stack(stackBuf, true)
	var sigs []string
	for _, g := range strings.Split(string(stackBuf[:n]), "\n\n") {
		nl := strings.IndexByte(g, '\n')
		if nl < 0 || !strings.Contains(g[:nl], "synctest bubble") {
			continue
		}
		var fr []string
		for _, l := range strings.Split(g[nl+1:], "\n") {
			if !strings.HasPrefix(l, "\t") || strings.Contains(l, "zz_verif") || strings.Contains(l, "zzverif") {
				continue
			}
			l = strings.TrimSpace(l)
			if sp := strings.IndexByte(l, ' '); sp >= 0 {
				l = l[:sp]
			}
			if isRepoFile(l) {
				fr = append(fr, l[len(repoRoot):])
			}
		}
		if len(fr) > 0 {
			sigs = append(sigs, strings.Join(fr, "<"))
		}
	}
	sort.Strings(sigs)
	return sigs
}

var repoRoot = func() string {
	_, f, _, _ := runtime.Caller(0)
	return filepath.Dir(filepath.Dir(f)) + "/"
}()

func isRepoFile(l string) bool { return strings.HasPrefix(l, repoRoot) }

// ctl is the part of the deduplication key that the field dump cannot see: where
// storrent's goroutines are parked (a peer in the middle of a handler, waiting
// for room in its writer with a timer running, is a different state from the
// same peer in its main select), and - whenever some goroutine is parked
// somewhere it was not when the world was built - how much virtual time has
// passed since the last stimulus (bounds what is left on the timers they wait on).
func (w *World) ctl() string {
	sigs := ctlSigs()
	away := false
	for _, s := range sigs {
		if !w.home[s] {
			away = true
		}
	}
	h := sha1.Sum([]byte(strings.Join(sigs, "\n")))
	out := fmt.Sprintf("|ctl %x", h[:6])
	if away {
		id := w.idle
		if id > 8*time.Second {
			id = 8 * time.Second
		}
		out += fmt.Sprintf(" idle=%v", id)
	}
	return out
}

// canon is the canonical dump used to deduplicate states.
func (w *World) canon() string {
	var sb strings.Builder
	t := w.t
	fmt.Fprintf(&sb, "T av=%v if=%v int=%v ic=%v dead=%v q=%d|", t.available, t.inFlight, t.amInterested, t.infoComplete, w.loopDead, len(t.Event))
	var req []string
	for i, r := range t.requested.pieces {
		p := append([]int8{}, r.prio...)
		sort.Slice(p, func(a, b int) bool { return p[a] < p[b] })
		req = append(req, fmt.Sprintf("%d:%v:%v", i, p, r.done != nil))
	}
	sort.Strings(req)
	fmt.Fprintf(&sb, "R %v|", req)
	if !w.cfg.Magnet || t.InfoComplete() {
		for i := 0; i < w.g.npieces(); i++ {
			_, bm := t.Pieces.PieceBitmap(uint32(i))
			fmt.Fprintf(&sb, "P%d %x %v|", i, []byte(bm), t.Pieces.Complete(uint32(i)))
		}
	} else {
		ih := sha1.Sum(t.Info)
		fmt.Fprintf(&sb, "M %x %v %v %d %x|", []byte(t.infoBitmap), t.infoRequested, t.infoSizeVotes, len(t.Info), ih[:4])
	}
	for _, r := range w.remotes {
		st := r.p.VerifState()
		now := time.Now()
		_ = now
		fmt.Fprintf(&sb, "r%d ex=%v live=%v cl=%v st=%v bm=%x seed=%v u=%v i=%v au=%v ai=%v q=%v r=%v up=%v fast=%v ev=%d wl=%d pe=%d",
			r.idx, r.exited(), r.live(), r.closed, r.stalled, []byte(st.Bitmap), st.IsSeed, st.Unchoked, st.Interested, st.AmUnchoking, st.AmInterested,
			st.Queue, st.Requested, st.Upload, st.Fast, st.Events, st.WriterLen, len(r.p.Event))
		var out []string
		for _, o := range r.outstanding {
			out = append(out, fmt.Sprintf("%d/%d", o.Index, o.Begin))
		}
		var pu []string
		for _, o := range r.pendingUp {
			pu = append(pu, fmt.Sprintf("%d/%d/%d", o.Index, o.Begin, o.Length))
		}
		fmt.Fprintf(&sb, " ch=%v out=%v pu=%v ubs=%v si=%v adv=%v fs=%v po=%v g=%v mr=%v", r.choking, out, pu, r.unchokedByStorrent, r.sentInterested, sortedSet(r.adv), sortedSet(r.fastSet), r.pendingOut(), r.grace, r.metaReqs)
		if r.gated {
			sb.WriteString(" gated")
		}
		if len(r.sentWhileGated) > 0 {
			var l []string
			for k := range r.sentWhileGated {
				l = append(l, k)
			}
			sort.Strings(l)
			fmt.Fprintf(&sb, " swg=%v", l)
		}
		if len(r.cancelledUp)+len(r.crossedUp)+len(r.resolvedStalled) > 0 {
			// monitor state that decides later verdicts
			fmt.Fprintf(&sb, " cu=%v cx=%v rs=%v", r.cancelledUp, r.crossedUp, r.resolvedStalled)
		}
		sb.WriteString("|")
	}
	if w.access != nil {
		// only the order of the access times matters to the oracle
		type at struct {
			i uint32
			t mono.Time
		}
		var l []at
		for i, t := range w.access {
			l = append(l, at{i, t})
		}
		sort.Slice(l, func(a, b int) bool {
			if l[a].t != l[b].t {
				return l[a].t < l[b].t
			}
			return l[a].i < l[b].i
		})
		sb.WriteString("|acc")
		for k, x := range l {
			eq := ""
			if k > 0 && x.t == l[k-1].t {
				eq = "="
			}
			fmt.Fprintf(&sb, " %s%d", eq, x.i)
		}
	}
	var cons []string
	for k, v := range w.consumers {
		if v > 0 {
			cons = append(cons, fmt.Sprintf("%s=%d", k, v))
		}
	}
	sort.Strings(cons)
	fmt.Fprintf(&sb, "C %v", cons)
	if w.seed != nil {
		fmt.Fprintf(&sb, "|ws %s %d %v", w.seed.mode, w.t.webseeds[0].Count(), w.t.webseeds[0].Ready(false))
	}
	for _, c := range w.chans {
		cl := false
		select {
		case <-c.ch:
			cl = true
		default:
		}
		fmt.Fprintf(&sb, "|ch%d:%v:%v:%v", c.piece, cl, c.abandoned, w.haves[c.piece] > c.havesAt)
	}
	for _, rd := range w.readers {
		// (ee: an empty read would be excused by an eviction the reader has not yet answered with one)
		fmt.Fprintf(&sb, "|rd %d+%d pos=%d busy=%v closed=%v ctx=%v req=%v ri=%d ee=%v", rd.off, rd.ln, rd.pos, rd.busy, rd.closed, rd.ctx.Err() != nil, rd.r.requested, rd.r.requestedIndex, w.evictions > rd.emptyAtEvictions)
	}
	return sb.String()
}

func sortedSet(m map[uint32]bool) []uint32 {
	var l []uint32
	for k, v := range m {
		if v {
			l = append(l, k)
		}
	}
	sort.Slice(l, func(i, j int) bool { return l[i] < l[j] })
	return l
}

var _ = binary.BigEndian
