package tor

import "testing"

// C10: piece requests — no lost wake-ups, no leaked priorities.

func c10Specs() []*bfsSpec {
	peerAll := []peerCfg{{Fast: true, Ext: true, DontHave: 7}}
	return []*bfsSpec{
		{Name: "c10-consumers", Cfg: worldCfg{Geom: "gtail", Peers: peerAll, AutoDrain: true},
			Setup:    []string{"haveall:0"},
			Alphabet: []string{"creq:0:1:1", "creq:0:1:0", "creq:0:0:1", "creq:1:1:1", "creq:1:-1:0", "cdel:0:1", "cdel:0:0", "cdel:1:1", "cdel:1:-1", "complete:0", "complete:1", "fail:0", "dupcomplete:0", "dupfail:0", "evict", "tick", "setconf:0"},
			Depth: 6, DepthT: 8},
		{Name: "c10-idle", Cfg: worldCfg{Geom: "gtail", Peers: peerAll, AutoDrain: true, IdleRate: 65536},
			Setup:    []string{"haveall:0", "unchoke:0"},
			Alphabet: []string{"tick", "creq:0:1:1", "creq:2:0:1", "cdel:0:1", "cdel:2:0", "complete:0", "complete:2", "fail:1", "evict", "setconf:0", "adv:61", "ans:0:old:full"},
			Depth: 6, DepthT: 7},
		{Name: "c10-readers", Cfg: worldCfg{Geom: "gtail", Peers: peerAll, AutoDrain: true},
			Setup:    []string{"haveall:0"},
			Alphabet: []string{"ropen:0:81921", "ropen:32768:40000", "ropen:100:20000", "rread:0:40000", "rread:0:100", "rread:1:100", "rseek:0:40000", "rseek:0:70000", "rseek:1:0", "rclose:0", "rclose:1", "rcancel:0",
				"complete:0", "complete:1", "complete:2", "fail:0", "evict", "creq:0:1:1", "cdel:0:1"},
			Depth: 6, DepthT: 7},
	}
}

func TestVerifC10(t *testing.T) { runSpecs(t, "C10", c10Specs()) }
