package tor

import (
	"bytes"
	"context"
	"fmt"
	"math/rand/v2"
	"net"
	"net/netip"
	"os"
	"sync"
	"testing"
	"testing/synctest"
	"time"

	"github.com/jech/storrent/config"
	"github.com/jech/storrent/hash"
	"github.com/jech/storrent/peer"
	"github.com/jech/storrent/protocol"
	rc "github.com/jech/storrent/zzverif/refcodec"
	"github.com/jech/storrent/zzverif/vh"
)

// C16: upload and choking discipline (monitor in world_test.go).

func c16Specs() []*bfsSpec {
	up := []string{"interested:0", "notinterested:0", "unchokepeer:0", "chokepeer:0", "utick",
		"req:0:0:0:16384", "req:0:2:16384:100", "req:0:2:16384:16384", "req:0:1:0:16384", "req:0:0:0:0", "req:0:0:16384:16385", "req:0:0:1:16384",
		"req:0:3:0:16384", "req:0:0:32768:16384", "req:0:0:0:131072", "ucancel:0", "ucancelx:0", "advms:300", "adv:2", "evict", "close:0", "stall:0", "resume:0"}
	return []*bfsSpec{
		{Name: "c16-nonfast", Cfg: worldCfg{Geom: "gshort", Peers: []peerCfg{{}}, Have: []int{0, 2}, AutoDrain: true}, Alphabet: up, Depth: 5, DepthT: 7},
		{Name: "c16-fast", Cfg: worldCfg{Geom: "gshort", Peers: []peerCfg{{Fast: true, Ext: true, DontHave: 7}}, Have: []int{0, 2}, AutoDrain: true},
			Setup: []string{"interested:0", "unchokepeer:0"}, Alphabet: append([]string{"flood:0:251", "req:0:0:0:4294967295"}, up...), Depth: 5, DepthT: 6},
		// start from a congested state: the remote has stopped reading with a full
		// request queue, so storrent's writer is blocked and its choke/reject
		// paths run into write timeouts
		{Name: "c16-fast-congested", Cfg: worldCfg{Geom: "gshort", Peers: []peerCfg{{Fast: true, Ext: true, DontHave: 7}}, Have: []int{0, 2}, AutoDrain: true},
			Setup: []string{"interested:0", "unchokepeer:0", "stall:0", "flood:0:251", "adv:2"},
			Alphabet: []string{"notinterested:0", "interested:0", "chokepeer:0", "unchokepeer:0", "utick", "adv:2", "advms:300", "resume:0", "stall:0", "req:0:2:16384:100", "ucancel:0", "evict", "close:0"}, Depth: 5, DepthT: 7},
		{Name: "c16-nonfast-congested", Cfg: worldCfg{Geom: "gshort", Peers: []peerCfg{{}}, Have: []int{0, 2}, AutoDrain: true},
			Setup: []string{"interested:0", "unchokepeer:0", "stall:0", "flood:0:251", "adv:2"},
			Alphabet: []string{"notinterested:0", "interested:0", "chokepeer:0", "unchokepeer:0", "utick", "adv:2", "advms:300", "resume:0", "stall:0", "req:0:2:16384:100", "ucancel:0", "evict", "close:0"}, Depth: 5, DepthT: 7},
		{Name: "c16-2remotes", Cfg: worldCfg{Geom: "g2x2", Peers: []peerCfg{{Fast: true}, {}}, Have: []int{0, 1}, AutoDrain: true},
			Alphabet: []string{"interested:0", "interested:1", "notinterested:0", "utick", "unchokepeer:0", "unchokepeer:1", "chokepeer:0", "req:0:0:0:16384", "req:1:1:16384:16384", "ucancel:1",
				"advms:300", "close:0", "close:1", "stall:1", "resume:1", "evict"},
			Depth: 5, DepthT: 6},
	}
}

func TestVerifC16(t *testing.T) { runSpecs(t, "C16", c16Specs()) }

// Peers stepped arm by arm (profile worldsel): requests, cancels and
// interest changes from the remote cross the torrent's choke decisions and the
// upload ticker at the granularity of single select arms.
func c16SelSpecs() []*bfsSpec {
	al := []string{"req:0:0:0:16384", "req:0:2:0:100", "ucancel:0", "notinterested:0", "interested:0", "chokepeer:0", "unchokepeer:0",
		"pstep:0:2", "pstep:0:3", "pstep:0:5", "advms:300", "ungate:0", "gate:0", "evict", "close:0"}
	return []*bfsSpec{
		{Name: "c16-sel-fast", Cfg: worldCfg{Geom: "gshort", Peers: []peerCfg{{Fast: true, Ext: true, DontHave: 7}}, Have: []int{0, 2}, AutoDrain: true, Gates: true},
			Setup: []string{"interested:0", "unchokepeer:0", "gate:0"}, Alphabet: al, Depth: 5, DepthT: 7},
		{Name: "c16-sel-nonfast", Cfg: worldCfg{Geom: "gshort", Peers: []peerCfg{{}}, Have: []int{0, 2}, AutoDrain: true, Gates: true},
			Setup: []string{"interested:0", "unchokepeer:0", "gate:0"}, Alphabet: al, Depth: 5, DepthT: 7},
	}
}

func TestVerifC16Sel(t *testing.T) { runSpecs(t, "C16", c16SelSpecs()) }

// TestVerifC16Big: one scenario on a torrent larger than 4 GiB (17 pieces of
// 256 MiB, pieces 0 and 16 held): requests at offsets beyond 2^32 must be
// answered with the bytes of *that* range.  The content is a cheap position
// function instead of a stored array.
func TestVerifC16Big(t *testing.T) {
	if os.Getenv("VERIF_OUT") == "" {
		t.Skip("verif harness: run through /verif/run")
	}
	res := vh.NewResult("C16")
	defer func() {
		os.Setenv("VERIF_SHARD", "90/100")
		if err := res.Write(); err != nil {
			t.Error(err)
		}
	}()
	const PS = 1 << 28
	const NP = 17
	total := int64(NP)*PS - 12345
	pat := func(o int64) byte { return byte((uint64(o)*0x9e3779b97f4a7c15)>>56) | 1 }
	fill := func(start int64, n int) []byte {
		b := make([]byte, n)
		for i := range b {
			b[i] = pat(start + int64(i))
		}
		return b
	}
	synctest.Test(t, func(t *testing.T) {
		peer.VerifReset()
		config.SetUploadRate(512 * 1024)
		config.MemoryMark = 1 << 40
		held := []uint32{0, 16}
		pieces := make([]byte, 20*NP)
		data := map[uint32][]byte{}
		for _, i := range held {
			l := int64(PS)
			if int64(i+1)*PS > total {
				l = total - int64(i)*PS
			}
			d := fill(int64(i)*PS, int(l))
			data[i] = d
			h := sha1Sum(d)
			copy(pieces[20*i:], h[:])
		}
		d := &rc.Dict{}
		d.Set("length", total)
		d.Set("name", "big")
		d.Set("piece length", int64(PS))
		d.Set("pieces", pieces)
		info := rc.Bencode(d)
		tor, err := New("", sha1sum(info), "", info, 0, nil, nil)
		if err == nil {
			err = tor.MetadataComplete()
		}
		if err != nil {
			panic(err)
		}
		tor.Log = discardLog
		tor.Event = make(chan peer.TorEvent, 512)
		tor.Done = make(chan struct{})
		tor.Deleted = make(chan struct{})
		tor.rand = rand.New(rand.NewPCG(1, 2))
		for _, i := range held {
			tor.Pieces.AddData(i, 0, data[i], ^uint32(0))
			if done, _, err := tor.Pieces.Finalise(i, tor.PieceHashes[i]); !done {
				panic(fmt.Sprint("finalise ", i, err))
			}
			delete(data, i)
		}
		ctx := context.Background()
		a, b := net.Pipe()
		p := peer.New("", a, netip.MustParseAddrPort("22.0.0.1:7000"), false, protocol.HandshakeResult{Hash: tor.Hash, Id: hash.Hash([]byte("-RM0001-big000000001")), Fast: true})
		p.Log = discardLog
		handleEvent(ctx, tor, peer.TorAddPeer{Peer: p})
		var mu sync.Mutex
		var buf bytes.Buffer
		go func() {
			tmp := make([]byte, 1<<16)
			for {
				n, err := b.Read(tmp)
				mu.Lock()
				buf.Write(tmp[:n])
				mu.Unlock()
				if err != nil {
					return
				}
			}
		}()
		drain := func() {
			for {
				synctest.Wait()
				select {
				case e := <-tor.Event:
					handleEvent(ctx, tor, e)
				default:
					return
				}
			}
		}
		send := func(m rc.Msg) {
			go b.Write(rc.Encode(m, rc.EncodeOpts{}))
			drain()
		}
		send(rc.Msg{Kind: rc.Interested})
		writePeer(p, peer.PeerUnchoke{Unchoke: true})
		drain()
		type rq struct{ i, b, l uint32 }
		reqs := []rq{{16, 0, 16384}, {16, 1 << 27, 16384}, {0, 16384, 16384}, {16, uint32(total-16*PS) - 16384, 16384}, {0, PS - 16384, 16384}, {15, 0, 16384}}
		for _, r := range reqs {
			send(rc.Msg{Kind: rc.Request, Index: r.i, Begin: r.b, Length: r.l})
		}
		for k := 0; k < 40; k++ {
			time.Sleep(300 * time.Millisecond)
			drain()
		}
		mu.Lock()
		frames, _ := rc.Split(buf.Bytes())
		mu.Unlock()
		served := 0
		for _, f := range frames {
			m, err := rc.Decode(f, rc.ExtIDs{})
			if err != nil || m.Kind != rc.Piece {
				continue
			}
			served++
			res.Add("transitions", 1)
			off := int64(m.Index)*PS + int64(m.Begin)
			want := fill(off, len(m.Data))
			found := false
			for _, r := range reqs {
				if r.i == m.Index && r.b == m.Begin && int(r.l) == len(m.Data) {
					found = true
				}
			}
			if !found {
				res.Violate("C16/piece-unrequested", fmt.Sprintf("Piece %d/%d/%d matches no request (torrent of %d bytes)", m.Index, m.Begin, len(m.Data), total), nil)
			}
			if !bytes.Equal(m.Data, want) {
				res.Violate("C16/piece-wrong-bytes/beyond-4GiB", fmt.Sprintf("the Piece sent for piece %d offset %d (torrent offset %d, beyond 2^32: %v) does not carry the content of that range", m.Index, m.Begin, off, off >= 1<<32), nil)
			}
		}
		if served < 5 {
			res.Violate("C16/held-block-not-served/beyond-4GiB", fmt.Sprintf("only %d of 5 requests for blocks of held pieces were answered on a torrent of %d bytes", served, total), nil)
		}
		res.Add("states", 1)
		res.Add("traces_validated_against_impl", 1)
		b.Close()
		drain()
		time.Sleep(3 * time.Second)
		drain()
		tor.Pieces.Del()
	})
	res.Sample(map[string]any{"torrent": "17 pieces of 256 MiB", "request": "piece 16, offset 2^27, 16384 bytes"})
}
