package tor

import "testing"

// C16: upload and choking discipline (monitor in world_test.go).

func c16Specs() []*bfsSpec {
	up := []string{"interested:0", "notinterested:0", "unchokepeer:0", "chokepeer:0", "utick",
		"req:0:0:0:16384", "req:0:2:16384:100", "req:0:2:16384:16384", "req:0:1:0:16384", "req:0:0:0:0", "req:0:0:16384:16385", "req:0:0:1:16384",
		"req:0:3:0:16384", "req:0:0:32768:16384", "req:0:0:0:131072", "ucancel:0", "ucancelx:0", "advms:300", "adv:2", "evict", "close:0", "stall:0", "resume:0"}
	return []*bfsSpec{
		{Name: "c16-nonfast", Cfg: worldCfg{Geom: "gshort", Peers: []peerCfg{{}}, Have: []int{0, 2}, AutoDrain: true}, Alphabet: up, Depth: 5, DepthT: 7},
		{Name: "c16-fast", Cfg: worldCfg{Geom: "gshort", Peers: []peerCfg{{Fast: true, Ext: true, DontHave: 7}}, Have: []int{0, 2}, AutoDrain: true},
			Setup: []string{"interested:0", "unchokepeer:0"}, Alphabet: append([]string{"flood:0:251", "req:0:0:0:4294967295"}, up...), Depth: 4, DepthT: 6},
		{Name: "c16-2remotes", Cfg: worldCfg{Geom: "g2x2", Peers: []peerCfg{{Fast: true}, {}}, Have: []int{0, 1}, AutoDrain: true},
			Alphabet: []string{"interested:0", "interested:1", "notinterested:0", "utick", "unchokepeer:0", "unchokepeer:1", "chokepeer:0", "req:0:0:0:16384", "req:1:1:16384:16384", "ucancel:1",
				"advms:300", "close:0", "close:1", "stall:1", "resume:1", "evict"},
			Depth: 5, DepthT: 6},
	}
}

func TestVerifC16(t *testing.T) { runSpecs(t, "C16", c16Specs()) }
