package tor

// C03 (global policy): tor.Expire over 0-3 live torrents (real AddTorrent
// loops in a bubble) x store sizes x memory marks, sequentially: documented
// return value, no panic, memory brought to the low mark by the asynchronous
// per-torrent passes, every dropped complete piece announced as no longer held.

import (
	"bytes"
	"context"
	"fmt"
	"net"
	"net/netip"
	"os"
	"sort"
	"sync"
	"testing"
	"testing/synctest"
	"time"

	"github.com/jech/storrent/alloc"
	"github.com/jech/storrent/config"
	"github.com/jech/storrent/hash"
	"github.com/jech/storrent/peer"
	"github.com/jech/storrent/protocol"
	rc "github.com/jech/storrent/zzverif/refcodec"
	"github.com/jech/storrent/zzverif/vh"
	"github.com/jech/storrent/zzverif/vrand"
)

type expireCfg struct {
	Mark  int64 `json:"mark"`
	Held  []int `json:"held"`  // verified pieces held by each torrent (of 4)
	Empty bool  `json:"empty"` // every torrent is deleted just before the call
}

func runExpire(t *testing.T, cfg expireCfg) (probs []problem) {
	prob := func(key, format string, a ...any) {
		probs = append(probs, problem{"C03", key, fmt.Sprintf(format, a...)})
	}
	defer func() {
		if p := recover(); p != nil {
			prob("C03/global-expire-panic/"+firstLine(fmt.Sprint(p)), "tor.Expire panicked: %v  [%+v]", p, cfg)
		}
	}()
	synctest.Test(t, func(t *testing.T) {
		vrand.Fix(13)
		defer vrand.Unfix()
		peer.VerifReset()
		config.DefaultDhtMode = config.DhtNone
		config.DefaultUseTrackers = false
		config.DefaultUseWebseeds = false
		config.SetIdleRate(0)
		config.MemoryMark = 1 << 30
		defer func() { config.MemoryMark = 1 << 30 }()
		if alloc.Bytes() != 0 {
			panic(fmt.Sprintf("harness: %d bytes allocated before the scenario", alloc.Bytes()))
		}
		g := wgeom{"e4", 2 * wchunk, 8 * wchunk} // 4 pieces of 32 KiB
		var tors []*Torrent
		var rbuf bytes.Buffer
		var rmu sync.Mutex
		var conns []net.Conn
		cleanup := func() {
			for _, tor := range tors {
				tor.Kill(context.Background())
			}
			for _, c := range conns {
				c.Close()
			}
			synctest.Wait()
			time.Sleep(time.Hour)
			synctest.Wait()
			for _, tor := range tors {
				del(tor.Hash)
			}
		}
		defer cleanup()
		for ti, held := range cfg.Held {
			w := &World{g: g}
			w.truth = make([]byte, g.Length)
			for i := range w.truth {
				w.truth[i] = wtruthByte(int64(i) + int64(ti)*7919)
			}
			info := buildInfo1(g, w.truth, fmt.Sprintf("exp%d", ti), 0)
			tt, err := ReadTorrent("", bytes.NewReader(wrapInfo(info)))
			if err != nil {
				panic(err)
			}
			tt.Log = discardLog
			tor, err := AddTorrent(context.Background(), tt)
			if err != nil {
				panic(err)
			}
			w.t = tor
			for i := 0; i < held; i++ {
				w.storePiece(uint32(i))
			}
			tors = append(tors, tor)
			if ti == 0 {
				// a peer that negotiated lt_donthave watches torrent 0
				a, b := net.Pipe()
				conns = append(conns, b)
				tor.NewPeer("", a, netip.MustParseAddrPort("20.0.0.1:7000"), false,
					protocol.HandshakeResult{Hash: tor.Hash, Id: hash.Hash([]byte("-RM0001-expire000001")), Fast: true, Extended: true}, nil)
				go func() {
					tmp := make([]byte, 4096)
					for {
						n, err := b.Read(tmp)
						rmu.Lock()
						rbuf.Write(tmp[:n])
						rmu.Unlock()
						if err != nil {
							return
						}
					}
				}()
				go b.Write(rc.Encode(rc.Msg{Kind: rc.Ext0, M: map[string]uint8{"lt_donthave": 7}, HasM: true}, rc.EncodeOpts{OmitZero: true}))
			}
		}
		synctest.Wait()
		if cfg.Empty {
			for _, tor := range tors {
				tor.Kill(context.Background())
			}
			synctest.Wait()
		}
		config.MemoryMark = cfg.Mark
		low, high := config.MemoryLowMark(), config.MemoryHighMark()
		mid := (low + high) / 2
		space := alloc.Bytes()
		completeBefore := map[int][]bool{}
		for ti, tor := range tors {
			for i := 0; i < 4; i++ {
				completeBefore[ti] = append(completeBefore[ti], !cfg.Empty && tor.Pieces.Complete(uint32(i)))
			}
		}
		var rcv int
		var pan any
		func() {
			defer func() { pan = recover() }()
			rcv = Expire()
		}()
		if pan != nil {
			prob("C03/global-expire-panic/"+firstLine(fmt.Sprint(pan)), "tor.Expire panicked: %v (memory mark %d, %d bytes allocated, %d torrents listed)  [%+v]", pan, cfg.Mark, space, count(), cfg)
			return
		}
		want := -1
		if space < mid {
			want = 1
		} else if space < high {
			want = 0
		}
		// (with nothing allocated there is nothing to evict: 0 is as good as -1)
		if rcv != want && !(want == -1 && rcv == 0 && space == 0) {
			prob("C03/global-expire-return", "Expire returned %d with %d bytes allocated, low/mid/high marks %d/%d/%d (expected %d)  [%+v]", rcv, space, low, mid, high, want, cfg)
		}
		synctest.Wait()
		time.Sleep(10 * time.Second)
		synctest.Wait()
		if rcv < 0 {
			if after := alloc.Bytes(); after > low && after > 0 {
				prob("C03/global-expire-short-of-low-mark", "after the eviction passes %d bytes are still allocated, the low mark is %d (was %d)  [%+v]", after, low, space, cfg)
			}
		} else if after := alloc.Bytes(); after != space {
			prob("C03/global-expire-evicts-below-mark", "Expire returned %d (nothing to do) but the allocation went from %d to %d  [%+v]", rcv, space, after, cfg)
		}
		// every complete piece torrent 0 dropped was announced as no longer held
		if len(tors) > 0 && !cfg.Empty {
			var dropped, told []int
			for i := 0; i < 4; i++ {
				if completeBefore[0][i] && !tors[0].Pieces.Complete(uint32(i)) {
					dropped = append(dropped, i)
				}
			}
			rmu.Lock()
			frames, _ := rc.Split(rbuf.Bytes())
			rmu.Unlock()
			for _, f := range frames {
				if m, err := rc.Decode(f, rc.ExtIDs{DontHave: 7}); err == nil && m.Kind == rc.ExtDontHave {
					told = append(told, int(m.Index))
				}
			}
			sort.Ints(told)
			if fmt.Sprint(dropped) != fmt.Sprint(told) {
				prob("C03/global-expire-donthave", "torrent 0 dropped complete pieces %v but told its peer don't-have %v  [%+v]", dropped, told, cfg)
			}
		}
	})
	return
}

func TestVerifExpire(t *testing.T) {
	if os.Getenv("VERIF_OUT") == "" && vh.ReplayFile() == "" {
		t.Skip("verif harness: run through /verif/run")
	}
	res := vh.NewResult("C03")
	defer func() {
		i, _ := vh.Shard()
		os.Setenv("VERIF_SHARD", fmt.Sprintf("%d/100", 80+i))
		if err := res.Write(); err != nil {
			t.Error(err)
		}
	}()
	judge := func(cfg expireCfg) {
		stop := vh.Guard("C03", "C03/global-expire", cfg, 120*time.Second)
		probs := runExpire(t, cfg)
		stop()
		res.Add("schedules", 1)
		res.Add("global_expire_scenarios", 1)
		for _, p := range probs {
			res.Violate(p.Key, p.Msg, cfg)
		}
	}
	if vh.ReplayFile() != "" {
		var cfg expireCfg
		if err := vh.LoadReplay(&cfg); err != nil {
			t.Fatal(err)
		}
		for _, p := range runExpire(t, cfg) {
			fmt.Printf("RESULT: violation %s: %s\n", p.Key, p.Msg)
		}
		return
	}
	piece := int64(2 * wchunk)
	marks := []int64{0, 1, piece, 2 * piece, 3 * piece, 4 * piece, 5 * piece, 8 * piece, 12 * piece, 1 << 30}
	helds := [][]int{nil, {0}, {1}, {4}, {4, 0}, {4, 1}, {4, 4}, {1, 1}, {2, 3}, {4, 4, 4}, {4, 1, 0}, {3, 3, 1}, {1, 1, 1}, {4, 2, 3}}
	n := 0
	for _, m := range marks {
		for _, h := range helds {
			for _, empty := range []bool{false, true} {
				n++
				if !vh.Mine(n) || (empty && len(h) == 0) {
					continue
				}
				judge(expireCfg{m, h, empty})
			}
		}
	}
	res.Sample(expireCfg{3 * piece, []int{4, 1, 0}, false})
}
