package tor

// C18: privacy switches are honoured.  Real AddTorrent/run() in a bubble, fake
// tracker.Tracker values and one real HTTP tracker and GetRight web seed over a
// scripted RoundTripper, a recording DHT (vdht), scripted net.Dial for
// getIPv6, remotes that decode what peers are told, incoming connections
// through the real tor.Server.  Every outbound side effect is attributed to
// the configuration in force when it was started.

import (
	"errors"
	sha1pkg "crypto/sha1"
	"bytes"
	"context"
	"fmt"
	"io"
	"net"
	"net/http"
	"net/netip"
	"os"
	"strings"
	"sync"
	"testing"
	"testing/synctest"
	"time"

	"github.com/jech/storrent/config"
	"github.com/jech/storrent/crypto"
	"github.com/jech/storrent/hash"
	"github.com/jech/storrent/httpclient"
	"github.com/jech/storrent/peer"
	"github.com/jech/storrent/protocol"
	"github.com/jech/storrent/tracker"
	"github.com/jech/storrent/webseed"
	rc "github.com/jech/storrent/zzverif/refcodec"
	"github.com/jech/storrent/zzverif/vdht"
	"github.com/jech/storrent/zzverif/vh"
	"github.com/jech/storrent/zzverif/vnet"
	"github.com/jech/storrent/zzverif/vrand"
)

func init() { httpclient.VerifStartExpiry() }

type trackerCall struct {
	URL          string
	Port4, Port6 int
	Proxy        string
}

type fakeTracker struct {
	url string
	mu  *sync.Mutex
	log *[]trackerCall
	// a tracker that takes its time and then fails (delay > 0): busy meanwhile, in
	// the error state until ten minutes have passed
	delay  time.Duration
	busy   bool
	failed time.Time
}

func (f *fakeTracker) URL() string { return f.url }
func (f *fakeTracker) GetState() (tracker.State, error) {
	f.mu.Lock()
	defer f.mu.Unlock()
	if f.busy {
		return tracker.Busy, nil
	}
	if !f.failed.IsZero() && time.Since(f.failed) < 10*time.Minute {
		return tracker.Idle, nil
	}
	return tracker.Ready, nil
}
func (f *fakeTracker) Announce(ctx context.Context, hash []byte, myid []byte, want int, size int64, port4, port6 int, proxy string, cb func(netip.AddrPort) bool) error {
	f.mu.Lock()
	*f.log = append(*f.log, trackerCall{f.url, port4, port6, proxy})
	if f.delay > 0 {
		f.busy = true
	}
	f.mu.Unlock()
	if f.delay == 0 {
		// (like a real tracker: not ready again before its interval has passed)
		f.mu.Lock()
		f.failed = time.Now()
		f.mu.Unlock()
		return nil
	}
	select {
	case <-time.After(f.delay):
	case <-ctx.Done():
	}
	f.mu.Lock()
	f.busy = false
	f.failed = time.Now()
	f.mu.Unlock()
	return errors.New("scripted: tracker failed after a long wait")
}

type httpRec struct {
	URL   string
	Range string
}

type recTransport struct {
	mu  sync.Mutex
	log []httpRec
}

func (r *recTransport) RoundTrip(req *http.Request) (*http.Response, error) {
	r.mu.Lock()
	r.log = append(r.log, httpRec{req.URL.String(), req.Header.Get("Range")})
	r.mu.Unlock()
	mk := func(code int, body string) *http.Response {
		return &http.Response{StatusCode: code, Status: fmt.Sprintf("%d x", code), Proto: "HTTP/1.1", ProtoMajor: 1, ProtoMinor: 1,
			Header: http.Header{}, Body: io.NopCloser(strings.NewReader(body)), Request: req, ContentLength: int64(len(body))}
	}
	if strings.Contains(req.URL.Host, "tracker") {
		return mk(200, "d8:intervali1800e5:peers0:e"), nil
	}
	return mk(404, "not here"), nil
}

type tcpAddrConn struct {
	net.Conn
	remote net.Addr
}

func (c tcpAddrConn) RemoteAddr() net.Addr { return c.remote }

type privCfg struct {
	Dht      int  `json:"dht"` // 0 none, 1 passive, 2 normal
	Trackers bool `json:"trackers"`
	Webseeds bool `json:"webseeds"`
}

func (c privCfg) String() string {
	return fmt.Sprintf("dht=%v trackers=%v webseeds=%v", config.DhtMode(c.Dht), c.Trackers, c.Webseeds)
}

type privScenario struct {
	Init  privCfg  `json:"init"`
	Proxy bool     `json:"proxy"`
	Steps []string `json:"steps"`
}

const privProxy = "socks5://127.0.0.9:1080"

func runPrivacy(t *testing.T, sc privScenario) (probs []problem, effects int) {
	prob := func(key, format string, a ...any) {
		for _, p := range probs {
			if p.Key == key {
				return
			}
		}
		probs = append(probs, problem{"C18", key, fmt.Sprintf(format, a...)})
	}
	defer func() {
		if p := recover(); p != nil {
			prob("C18/panic/"+firstLine(fmt.Sprint(p)), "panic: %v", p)
		}
	}()
	synctest.Test(t, func(t *testing.T) {
		vrand.Fix(11)
		defer vrand.Unfix()
		peer.VerifReset()
		vdht.Reset()
		config.ProtocolPort = 51413
		config.SetExternalIPv4Port(51414, true)
		config.SetExternalIPv4Port(51415, false)
		config.MemoryMark = 1 << 30
		config.SetIdleRate(0)
		config.PrefetchRate = 768 * 1024
		config.DefaultDhtMode = config.DhtMode(sc.Init.Dht)
		config.DefaultUseTrackers = sc.Init.Trackers
		config.DefaultUseWebseeds = sc.Init.Webseeds
		vnet.SetDialHook(func(ctx context.Context, network, address string) (net.Conn, error) {
			return &vnet.FakeUDPConn{Local: &net.UDPAddr{IP: net.ParseIP("2001:db8::77"), Port: 4444}}, nil
		})
		defer vnet.SetDialHook(nil)
		rt := &recTransport{}
		proxy := ""
		if sc.Proxy {
			proxy = privProxy
		}
		for _, n := range []string{"", "tcp4", "tcp6"} {
			httpclient.VerifInstall(n, proxy, rt)
			httpclient.VerifInstall(n, "", rt)
		}
		var tmu sync.Mutex
		var tcalls []trackerCall
		g := wgeoms["g2x2"]
		truth := make([]byte, g.Length)
		for i := range truth {
			truth[i] = wtruthByte(int64(i))
		}
		info := buildInfo(g, truth, "priv", 0)
		hsh := sha1sum(info)
		// (one tier whose first tracker is slow and then fails, with a fallback behind it)
		trackers := [][]tracker.Tracker{
			{&fakeTracker{url: "http://fake1.example/announce", mu: &tmu, log: &tcalls}},
			{tracker.New("http://tracker.example/announce")},
			{&fakeTracker{url: "http://fake-slow.example/announce", mu: &tmu, log: &tcalls, delay: 40 * time.Second}, &fakeTracker{url: "http://fake-fallback.example/announce", mu: &tmu, log: &tcalls}},
		}
		tt, err := New(proxy, hsh, "", info, 0, trackers, []webseed.Webseed{webseed.New("http://seed.example/data", true)})
		if err != nil {
			panic(err)
		}
		if err := tt.MetadataComplete(); err != nil {
			panic(err)
		}
		tt.Log = discardLog
		ctx, cancel := context.WithCancel(context.Background())
		tor, err := AddTorrent(ctx, tt)
		if err != nil {
			panic(err)
		}
		synctest.Wait()

		cur := sc.Init
		var remotes []*bytes.Buffer
		var rmu sync.Mutex
		nt, nh, nd := 0, 0, 0
		nframes := map[int]int{}
		npeers := 0
		// judge attributes every new side effect to the configuration cfg
		judge := func(cfg privCfg, during string) {
			tmu.Lock()
			newT := append([]trackerCall{}, tcalls[nt:]...)
			nt = len(tcalls)
			tmu.Unlock()
			rt.mu.Lock()
			newH := append([]httpRec{}, rt.log[nh:]...)
			nh = len(rt.log)
			rt.mu.Unlock()
			ann, _ := vdht.Snapshot()
			newD := ann[nd:]
			nd = len(ann)
			effects += len(newT) + len(newH) + len(newD)
			where := fmt.Sprintf("(during %q with %s, proxy=%v)", during, cfg, sc.Proxy)
			for _, c := range newT {
				if !cfg.Trackers {
					prob("C18/tracker-contacted-while-disabled", "tracker %s was announced to although tracker use is disabled %s", c.URL, where)
				}
				if sc.Proxy && (c.Port4 != 0 || c.Port6 != 0) {
					prob("C18/port-revealed-to-tracker", "a proxied torrent announced ports %d/%d to tracker %s %s", c.Port4, c.Port6, c.URL, where)
				}
			}
			for _, h := range newH {
				if strings.Contains(h.URL, "tracker.example") {
					if !cfg.Trackers {
						prob("C18/tracker-contacted-while-disabled", "HTTP tracker request %q although tracker use is disabled %s", trunc(h.URL, 80), where)
					}
					if sc.Proxy && strings.Contains(h.URL, "port=") {
						prob("C18/port-revealed-to-tracker", "a proxied torrent sent a port parameter to its tracker: %q %s", trunc(h.URL, 200), where)
					}
				}
				if strings.Contains(h.URL, "seed.example") && !cfg.Webseeds {
					prob("C18/webseed-fetched-while-disabled", "web-seed request %q (%s) although web-seed use is disabled %s", h.URL, h.Range, where)
				}
			}
			for _, d := range newD {
				if cfg.Dht == 0 {
					prob("C18/dht-announce-while-none", "the torrent announced itself to the DHT although its DHT mode is none %s", where)
				}
				if d.Port != 0 && (cfg.Dht != 2 || sc.Proxy) {
					prob("C18/dht-port-revealed", "DHT announce advertises port %d in mode %v, proxy=%v %s", d.Port, config.DhtMode(cfg.Dht), sc.Proxy, where)
				}
			}
			// frames the peers were sent
			rmu.Lock()
			for i, b := range remotes {
				frames, _ := rc.Split(b.Bytes())
				for _, f := range frames[nframes[i]:] {
					m, err := rc.Decode(f, rc.ExtIDs{})
					if err != nil {
						continue
					}
					if sc.Proxy {
						switch m.Kind {
						case rc.Port:
							prob("C18/port-message-to-peer", "a proxied torrent sent a DHT Port message (%d) to a peer", m.Port)
						case rc.Ext0:
							if m.Version != "" {
								prob("C18/version-revealed-to-peer", "a proxied torrent revealed its client version %q to a peer", m.Version)
							}
							if m.ExtPort != 0 {
								prob("C18/port-revealed-to-peer", "a proxied torrent revealed its listening port %d to a peer", m.ExtPort)
							}
							if m.IPv6.IsValid() {
								prob("C18/ipv6-revealed-to-peer", "a proxied torrent revealed its IPv6 address %v to a peer", m.IPv6)
							}
						}
					}
				}
				nframes[i] = len(frames)
			}
			rmu.Unlock()
			if sc.Proxy {
				for _, hp := range infoHashes(false) {
					if bytes.Equal(hp.First, tor.Hash) {
						prob("C18/proxied-torrent-offered-to-incoming", "a proxied torrent is in the list of hashes offered to incoming connections")
					}
				}
			}
		}
		judge(cur, "add")
		for _, st := range sc.Steps {
			f := strings.Split(st, ":")
			switch f[0] {
			case "conf":
				var d int
				var tr, ws int
				fmt.Sscanf(st, "conf:%d:%d:%d", &d, &tr, &ws)
				cur = privCfg{d, tr != 0, ws != 0}
				if err := tor.SetConf(peer.TorConf{DhtMode: config.DhtMode(d), UseTrackers: tr != 0, UseWebseeds: ws != 0}); err != nil {
					panic(err)
				}
			case "adv":
				var s int
				fmt.Sscanf(st, "adv:%d", &s)
				time.Sleep(time.Duration(s) * time.Second)
			case "want":
				tor.Request(0, 1, true, false)
			case "peer":
				a, b := net.Pipe()
				buf := &bytes.Buffer{}
				rmu.Lock()
				remotes = append(remotes, buf)
				rmu.Unlock()
				go func() {
					tmp := make([]byte, 4096)
					for {
						n, err := b.Read(tmp)
						rmu.Lock()
						buf.Write(tmp[:n])
						rmu.Unlock()
						if err != nil {
							return
						}
					}
				}()
				npeers++
				pid := hash.Hash([]byte(fmt.Sprintf("-RM0001-priv%08d", npeers)))
				tor.NewPeer(proxy, a, netip.AddrPortFrom(netip.AddrFrom4([4]byte{14, 0, 0, byte(npeers)}), uint16(8000+npeers)), false,
					protocol.HandshakeResult{Hash: tor.Hash, Id: pid, Dht: true, Fast: true, Extended: true}, nil)
			case "incoming":
				a, b := net.Pipe()
				before, _ := tor.GetPeers()
				done := make(chan error, 1)
				go func() {
					done <- Server(tcpAddrConn{a, &net.TCPAddr{IP: net.ParseIP("15.1.2.3"), Port: 40000}}, &crypto.Options{AllowCryptoHandshake: true, AllowEncryption: true})
				}()
				go func() {
					conn, _, _, err := protocol.ClientHandshake(b, false, tor.Hash, hash.Hash([]byte("-IN0001-incoming0001")), &crypto.Options{})
					if err == nil {
						io.Copy(io.Discard, conn)
					}
					b.Close()
				}()
				synctest.Wait()
				time.Sleep(2 * time.Minute)
				synctest.Wait()
				after, _ := tor.GetPeers()
				var serr error
				select {
				case serr = <-done:
				default:
					prob("C18/server-hangs", "tor.Server did not return")
				}
				if sc.Proxy && (serr == nil || len(after) != len(before)) {
					prob("C18/proxied-torrent-accepts-incoming", "a proxied torrent accepted an incoming connection (Server returned %v, peers %d -> %d)", serr, len(before), len(after))
				}
			default:
				panic("unknown step " + st)
			}
			synctest.Wait()
			judge(cur, st)
		}
		cancel()
		tor.Kill(context.Background())
		synctest.Wait()
		time.Sleep(time.Hour)
		synctest.Wait()
		del(tor.Hash)
	})
	return
}

func trunc(s string, n int) string {
	if len(s) > n {
		return s[:n]
	}
	return s
}

func sha1sum(b []byte) hash.Hash {
	h := sha1Sum(b)
	return hash.Hash(h[:])
}

func TestVerifC18(t *testing.T) {
	if os.Getenv("VERIF_OUT") == "" && vh.ReplayFile() == "" {
		t.Skip("verif harness: run through /verif/run")
	}
	res := vh.NewResult("C18")
	defer func() {
		vh.ClearCheckpoint("C18")
		if err := res.Write(); err != nil {
			t.Error(err)
		}
	}()
	judge := func(sc privScenario) {
		vh.CheckpointKey("C18", "C18/crash", sc)
		stop := vh.Guard("C18", "C18", sc, 180*time.Second)
		probs, eff := runPrivacy(t, sc)
		stop()
		res.Add("scenarios", 1)
		res.Add("states", int64(len(sc.Steps)+1))
		res.Add("transitions", int64(len(sc.Steps)))
		res.Add("traces_validated_against_impl", 1)
		res.Add("side_effects_observed", int64(eff))
		for _, p := range probs {
			if res.HasViolation(p.Key) {
				continue
			}
			hits := 0
			for i := 0; i < 5; i++ {
				pp, _ := runPrivacy(t, sc)
				for _, q := range pp {
					if q.Key == p.Key {
						hits++
						break
					}
				}
			}
			if hits < 2 {
				res.Add("replay_divergences", 1)
				continue
			}
			res.Violate(p.Key, fmt.Sprintf("%s  [initial %s, proxy=%v, steps %v]", p.Msg, sc.Init, sc.Proxy, sc.Steps), sc)
		}
		if res.Counters["scenarios"]%100 == 0 {
			res.Write()
		}
	}
	if vh.ReplayFile() != "" {
		var sc privScenario
		if err := vh.LoadReplay(&sc); err != nil {
			t.Fatal(err)
		}
		probs, eff := runPrivacy(t, sc)
		fmt.Printf("scenario: init %s proxy=%v steps %v; %d side effects observed\n", sc.Init, sc.Proxy, sc.Steps, eff)
		for _, p := range probs {
			fmt.Printf("RESULT: violation %s: %s\n", p.Key, p.Msg)
		}
		if len(probs) == 0 {
			fmt.Println("RESULT: property held on this scenario")
		}
		return
	}
	var confs []privCfg
	for d := 0; d < 3; d++ {
		for _, tr := range []bool{false, true} {
			for _, ws := range []bool{false, true} {
				confs = append(confs, privCfg{d, tr, ws})
			}
		}
	}
	// what happens between two reconfigurations: a wanted piece, the slow tick
	// (trackers), a peer connecting, an incoming connection, the DHT
	// re-announce period
	activity := []string{"want", "adv:21", "peer", "adv:45", "incoming", "adv:1740", "adv:25"}
	step := func(c privCfg) string { return fmt.Sprintf("conf:%d:%d:%d", c.Dht, b2n(c.Trackers), b2n(c.Webseeds)) }
	work := 0
	mine := func() bool { work++; return vh.Mine(work) }
	maxReconf := 2
	if vh.Thorough() {
		maxReconf = 3
	}
	for _, init := range confs {
		for _, proxy := range []bool{false, true} {
			var rec func(steps []string, depth int)
			rec = func(steps []string, depth int) {
				if depth == 1 || depth == 0 {
					if !mine() {
						if depth == 1 {
							return
						}
					}
				}
				if vh.Expired() {
					res.NotExhaustive("deadline")
					return
				}
				if depth > 0 || vh.Mine(work) {
					judge(privScenario{init, proxy, append(append([]string{}, steps...), activity...)})
				}
				if depth == maxReconf {
					return
				}
				for _, c := range confs {
					ns := append(append([]string{}, steps...), activity...)
					ns = append(ns, step(c))
					rec(ns, depth+1)
				}
			}
			rec(nil, 0)
		}
	}
	// reconfigurations that land while an announce is in flight (one tier has a tracker
	// that takes 40 s and then fails, with a fallback behind it): the switch is
	// flipped after k slow ticks, for every k that can coincide with that announce
	for _, init := range confs {
		if !init.Trackers {
			continue
		}
		for _, proxy := range []bool{false, true} {
			for k := 1; k <= 7; k++ {
				if !mine() {
					continue
				}
				for _, c := range confs {
					var steps []string
					for i := 0; i < k; i++ {
						steps = append(steps, "adv:21")
					}
					steps = append(steps, step(c), "adv:45", "adv:45", "want", "adv:25")
					judge(privScenario{init, proxy, steps})
				}
			}
		}
	}
	res.Sample(privScenario{confs[11], true, append(append([]string{}, activity...), step(confs[0]))})
}

func b2n(b bool) int {
	if b {
		return 1
	}
	return 0
}

func sha1Sum(b []byte) [20]byte { return sha1pkg.Sum(b) }
