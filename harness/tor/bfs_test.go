package tor

// Explicit-state breadth-first search over the world (engine B).  Live Go
// objects cannot be cloned, so a state *is* the history that reaches it; a
// successor is produced by replaying that history in a fresh bubble plus one
// transition.  States are deduplicated on World.canon().

import (
	"fmt"
	"hash/fnv"
	"os"
	"sort"
	"strings"
	"testing"
	"testing/synctest"
	"time"

	"github.com/jech/storrent/zzverif/vh"
)

// (BothMapOrders: the world is explored twice, with the scheduler's map range
// loops in ascending and in descending key order)
type bfsSpec struct {
	BothMapOrders bool
	Name     string
	Cfg      worldCfg
	Setup    []string
	Alphabet []string
	Depth    int // quick depth
	DepthT   int // thorough depth
	Live     func(w *World) // optional bounded-liveness oracle (consumes the world)
}

type worldReplay struct {
	Spec    string   `json:"spec"`
	History []string `json:"history"`
}

type runOut struct {
	canon    string
	enabled  []string
	probs    []problem
	valid    bool
	steps    int
}

// can reports whether a transition is meaningful in the current state (the
// guards of World.apply, without side effects).
func (w *World) can(tr string) bool {
	f := strings.Split(tr, ":")
	ai := func(i int) int {
		v := 0
		if i < len(f) {
			fmt.Sscanf(f[i], "%d", &v)
		}
		return v
	}
	var r *remote
	switch f[0] {
	case "adv", "advms", "tick", "utick", "want", "creq", "setconf", "treq":
		return true
	case "evictone":
		return w.t.Pieces.Count() > 0
	case "cdel":
		return w.consumers[fmt.Sprintf("%d/%d", ai(1), ai(2))] > 0
	case "complete", "fail", "dupcomplete", "dupfail":
		return !w.t.Pieces.Complete(uint32(ai(1)))
	case "ropen":
		return len(w.readers) < 2
	case "rread", "rseek", "rclose":
		return ai(1) < len(w.readers) && !w.readers[ai(1)].busy && !w.readers[ai(1)].closed
	case "rcancel":
		return ai(1) < len(w.readers) && !w.readers[ai(1)].closed && w.readers[ai(1)].ctx.Err() == nil
	case "mtick":
		return w.t.infoComplete == 0
	case "wsmode":
		return w.seed != nil && w.seed.mode != f[1]
	case "ev", "drain":
		return len(w.t.Event) > 0
	case "stuff":
		return w.cfg.Gates && ai(1) < len(w.remotes) && w.remotes[ai(1)].gated && !w.remotes[ai(1)].exited() && len(w.remotes[ai(1)].p.Event) < cap(w.remotes[ai(1)].p.Event)
	case "gate", "ungate", "pstep":
		if !w.cfg.Gates || ai(1) >= len(w.remotes) {
			return false
		}
		g := w.remotes[ai(1)]
		if f[0] == "gate" {
			return !g.gated && !g.exited()
		}
		return g.gated && !g.exited()
	case "unwant":
		return w.consumers[fmt.Sprintf("%d/%d", ai(1), ai(2))] > 0
	case "evict":
		return w.t.Pieces.Count() > 0
	case "addpeer":
		return len(w.remotes) < 3
	}
	if ai(1) >= len(w.remotes) {
		return false
	}
	r = w.remotes[ai(1)]
	if r.closed {
		return false
	}
	switch f[0] {
	case "vote":
		return !r.sentExt0 && r.cfg.Ext
	case "haveall", "havenone", "allowfast":
		return r.cfg.Fast
	case "donthave":
		return r.cfg.Ext
	case "unchoke":
		return r.choking
	case "choke":
		return !r.choking
	case "chokesilent":
		return !r.choking && r.cfg.Fast
	case "ans":
		if len(r.outstanding) == 0 || (f[2] == "new" && len(r.outstanding) < 2) {
			return false
		}
		return true
	case "manswer", "mreject":
		return len(r.metaReqs) > 0
	case "cmd":
		c := uint32(ai(2))
		return !r.exited() && int(c) < w.g.nchunks() && r.adv[c/w.g.cpp()] && !w.t.Pieces.Complete(c/w.g.cpp())
	case "ansq":
		return !r.exited() && len(r.p.VerifState().Queue) > 0
	case "rej":
		if !r.cfg.Fast || len(r.outstanding) == 0 || (f[2] == "new" && len(r.outstanding) < 2) {
			return false
		}
		return true
	case "stall":
		return !r.stalled
	case "resume":
		return r.stalled
	case "interested":
		return !r.sentInterested
	case "notinterested":
		return r.sentInterested
	case "ucancel":
		return len(r.pendingUp) > 0
	case "unchokepeer", "chokepeer":
		return !r.exited()
	}
	return true
}

// runWorld replays setup+history in a fresh bubble and reports the state reached.
func runWorld(t *testing.T, spec *bfsSpec, hist []string, verbose bool) (out runOut) {
	synctest.Test(t, func(t *testing.T) {
		w := newWorld(spec.Cfg)
		w.settle()
		w.home = map[string]bool{}
		for _, sg := range ctlSigs() {
			w.home[sg] = true
		}
		out.valid = true
		for _, tr := range spec.Setup {
			if tr == "drain" && len(w.t.Event) == 0 {
				continue // nothing to deliver at this point of the setup
			}
			if !w.apply(tr) {
				panic(fmt.Sprintf("spec %s: setup transition %s not applicable", spec.Name, tr))
			}
		}
		w.checkInvariants()
		for _, tr := range hist {
			if !w.apply(tr) {
				out.valid = false
				break
			}
			w.checkInvariants()
			if verbose {
				fmt.Printf("  %-22s -> %s%s\n", tr, w.canon(), w.ctl())
			}
		}
		if out.valid && spec.Live != nil && len(w.prob) == 0 {
			// bounded liveness is judged on a copy of the future: it consumes
			// the world, so the canonical key is taken first
			out.canon = w.canon() + w.ctl()
			for _, tr := range spec.Alphabet {
				if !w.loopDead && w.can(tr) {
					out.enabled = append(out.enabled, tr)
				}
			}
			spec.Live(w)
			out.steps = w.transitions
			w.dispose()
			out.probs = w.prob
			return
		}
		if out.valid {
			out.canon = w.canon() + w.ctl()
			for _, tr := range spec.Alphabet {
				if !w.loopDead && w.can(tr) {
					out.enabled = append(out.enabled, tr)
				}
			}
			w.finish()
		}
		out.steps = w.transitions
		w.dispose()
		out.probs = w.prob
	})
	return
}

type bfsStats struct {
	states, transitions, maxDepth int
	exhaustive                    bool
}

func shardOf(h []string, n int) int {
	f := fnv.New32a()
	for _, s := range h {
		f.Write([]byte(s))
		f.Write([]byte{0})
	}
	return int(f.Sum32() % uint32(n))
}

// bfs explores spec; results go to the per-property result files.
func bfs(t *testing.T, spec *bfsSpec, res map[string]*vh.Result, main string, deadline time.Time) {
	depth := spec.Depth
	if vh.Thorough() && spec.DepthT > 0 {
		depth = spec.DepthT
	}
	me, nshards := vh.Shard()
	type node struct {
		hist    []string
		enabled []string
	}
	r := res[main]
	record := func(hist []string, probs []problem) {
		// a crash of the client belongs to C05 and to the property whose world
		// provoked it (every world property has a "never crashes" clause)
		var all []problem
		for _, p := range probs {
			all = append(all, p)
			if p.Prop == "C05" && strings.HasPrefix(p.Key, "C05/panic") && main != "C05" {
				all = append(all, problem{main, main + strings.TrimPrefix(p.Key, "C05"), p.Msg})
			}
		}
		for _, p := range all {
			rr := res[p.Prop]
			if rr == nil || rr.HasViolation(p.Key) {
				continue
			}
			// re-execute 5 times.  Go's map iteration order is the one source
			// of nondeterminism the harness does not own (tied metadata size
			// votes, several requested pieces of equal priority): every oracle
			// holds for every order, so a violation seen in an execution is
			// genuine, but it is only reported if it reproduces; otherwise it
			// is counted as a replay divergence and the world is marked
			// non-exhaustive.
			hits := 0
			for i := 0; i < 5; i++ {
				o := runWorld(t, spec, hist, false)
				for _, q := range o.probs {
					if q.Key == p.Key || (strings.HasPrefix(q.Key, "C05/panic") && main+strings.TrimPrefix(q.Key, "C05") == p.Key) {
						hits++
						break
					}
				}
			}
			if hits == 0 && strings.HasPrefix(p.Key, "C05/alloc/") {
				// the allocation probe reads runtime/metrics, which accounts small
				// objects with a lag: a reading that five exact re-executions do
				// not confirm is an artefact of the probe, not behaviour
				r.Add("alloc_probe_not_confirmed", 1)
				continue
			}
			if hits < 2 {
				r.Add("replay_divergences", 1)
				r.NotExhaustive(fmt.Sprintf("world %s: a %s observation did not reproduce (%d/5) on history %v", spec.Name, p.Key, hits, hist))
				continue
			}
			rr.Violate(p.Key, fmt.Sprintf("%s  [world %s, setup %v, history %v]", p.Msg, spec.Name, spec.Setup, hist), worldReplay{spec.Name, hist})
		}
	}
	vh.CheckpointKey(main, "C05/crash/"+spec.Name, worldReplay{spec.Name, nil})
	root := runWorld(t, spec, nil, false)
	record(nil, root.probs)
	seen := map[string]bool{root.canon: true}
	frontier := []node{{nil, root.enabled}}
	if me == 0 {
		r.Add("states", 1)
	}
	completed := 0
	for d := 0; d < depth; d++ {
		var next []node
		for _, nd := range frontier {
			for _, tr := range nd.enabled {
				h := append(append([]string{}, nd.hist...), tr)
				// levels 0 and 1 are expanded by every worker; from the second
				// transition on a subtree belongs to one worker
				if len(h) >= 2 && shardOf(h[:2], nshards) != me {
					continue
				}
				if time.Now().After(deadline) {
					r.NotExhaustive(fmt.Sprintf("world %s: deadline at depth %d (depth %d completed)", spec.Name, d+1, completed))
					r.SetMax("depth_completed_"+spec.Name, int64(completed))
					return
				}
				vh.CheckpointKey(main, "C05/crash/"+spec.Name, worldReplay{spec.Name, h})
				stopGuard := vh.Guard(main, main+"/"+spec.Name, worldReplay{spec.Name, h}, 120*time.Second)
				o := runWorld(t, spec, h, false)
				stopGuard()
				if !o.valid {
					continue
				}
				counted := len(h) >= 2 || me == 0
				if counted {
					r.Add("transitions", int64(1))
					r.Add("traces_validated_against_impl", 1)
					r.Add("actor_steps", int64(o.steps))
				}
				if len(o.probs) > 0 {
					record(h, o.probs)
					// a state in which this check's own property is violated (or
					// the client has crashed or hung) is not expanded; a finding
					// that belongs to another property's monitor does not cut
					// this property's exploration short
					cut := false
					for _, p := range o.probs {
						if p.Prop == main || strings.HasPrefix(p.Key, "C05/panic") || strings.HasPrefix(p.Key, "C05/loop-hangs") {
							cut = true
						}
					}
					if cut {
						continue
					}
				}
				if !seen[o.canon] {
					seen[o.canon] = true
					next = append(next, node{h, o.enabled})
					if counted {
						r.Add("states", 1)
						r.Distinct("state_classes", fmt.Sprint(len(o.enabled), len(o.canon)))
					}
				}
			}
		}
		completed = d + 1
		frontier = next
		r.Write() // partial results survive a worker that dies later
		if len(frontier) == 0 {
			break
		}
	}
	r.SetMax("depth_completed_"+spec.Name, int64(completed))
	r.SetMax("max_depth", int64(completed))
	if me == 0 && len(frontier) > 0 {
		r.Sample(map[string]any{"world": spec.Name, "setup": spec.Setup, "history": frontier[len(frontier)/2].hist})
	}
}

// runSpecs is the common body of the world-based checks.
func runSpecs(t *testing.T, main string, specs []*bfsSpec) {
	if os.Getenv("VERIF_OUT") == "" && vh.ReplayFile() == "" {
		t.Skip("verif harness: run through /verif/run")
	}
	var expanded []*bfsSpec
	for _, s := range specs {
		expanded = append(expanded, s)
		if s.BothMapOrders {
			d := *s
			d.Name += "-mapdesc"
			d.Cfg.MapDesc = true
			expanded = append(expanded, &d)
		}
	}
	specs = expanded
	res := map[string]*vh.Result{}
	for _, id := range []string{"C01", "C03", "C05", "C09", "C10", "C11", "C12", "C16", "C17"} {
		res[id] = vh.NewResult(id)
	}
	if vh.ReplayFile() != "" {
		var rp worldReplay
		if err := vh.LoadReplay(&rp); err != nil {
			t.Fatal(err)
		}
		for _, s := range specs {
			if s.Name == rp.Spec {
				fmt.Printf("world %s config %+v\nsetup %v\nhistory %v\n", s.Name, s.Cfg, s.Setup, rp.History)
				o := runWorld(t, s, rp.History, true)
				for _, p := range o.probs {
					fmt.Printf("RESULT: violation %s: %s\n", p.Key, p.Msg)
				}
				if len(o.probs) == 0 {
					fmt.Println("RESULT: property held on this history")
				}
				return
			}
		}
		t.Fatalf("unknown world %q", rp.Spec)
	}
	defer func() {
		vh.ClearCheckpoint(main)
		// only the main property's file is written under its own name; findings
		// that belong to other properties are reported in a side file
		if err := res[main].Write(); err != nil {
			t.Error(err)
		}
		var others []string
		for id, r := range res {
			if id != main && r.NViolations() > 0 {
				for _, v := range r.Violations {
					others = append(others, id+": "+v.Key)
				}
			}
		}
		sort.Strings(others)
		for _, o := range others {
			fmt.Println("ALSO-FOUND", o)
		}
	}()
	total := time.Until(vh.Deadline())
	for i, s := range specs {
		// each world gets an equal share of what remains
		// (most worlds finish well within their share, so a world may use up
		// to three shares; what it leaves is redistributed)
		share := 3 * time.Until(vh.Deadline()) / time.Duration(len(specs)-i)
		if rem := time.Until(vh.Deadline()); share > rem {
			share = rem
		}
		_ = total
		bfs(t, s, res, main, time.Now().Add(share))
	}
	res[main].Add("worlds", int64(len(specs)))
}
