package tor

import "testing"

// C03 beyond the store: "an eviction pass reports every complete piece it
// drops so the piece is no longer advertised".  Worlds with real peers in which
// pieces are evicted (and corrupt pieces discarded) while a peer is stalled,
// congested, stepped arm by arm, or has a full command queue; the wire monitor
// tracks what storrent has told each remote it holds (world_test.go:
// C03/evicted-piece-still-advertised) and the memory accounting is judged when
// the world is disposed (C03/world-leak).

func c03Specs() []*bfsSpec {
	dh := peerCfg{Fast: true, Ext: true, DontHave: 7}
	plain := peerCfg{Ext: true, DontHave: 5}
	return []*bfsSpec{
		{Name: "c03-evict-told", Cfg: worldCfg{Geom: "gshort", Peers: []peerCfg{dh, plain}, Have: []int{0, 2}, AutoDrain: true},
			Alphabet: []string{"evict", "complete:1", "complete:0", "complete:2", "fail:1", "stall:0", "resume:0", "stall:1", "resume:1", "adv:2", "adv:31", "close:1", "interested:0", "unchokepeer:0", "req:0:0:0:16384"},
			Depth: 4, DepthT: 6},
		{Name: "c03-evict-gated", Cfg: worldCfg{Geom: "gshort", Peers: []peerCfg{dh, plain}, Have: []int{0, 2}, AutoDrain: true, Gates: true},
			Setup:    []string{"gate:0"},
			Alphabet: []string{"evict", "complete:1", "complete:0", "stuff:0", "pstep:0:2", "ungate:0", "gate:0", "close:1", "adv:2"},
			Depth: 5, DepthT: 7},
		// least-recently-accessed first, with the accesses made through the exported
		// Torrent.Request (what Readers call), in different seconds of the clock
		{Name: "c03-lru", Cfg: worldCfg{Geom: "gtail", Peers: []peerCfg{dh}, Have: []int{0, 1, 2}, AutoDrain: true},
			Alphabet: []string{"treq:0:1", "treq:1:1", "treq:2:0", "adv:2", "adv:61", "evictone", "complete:0", "complete:1"},
			Depth: 6, DepthT: 8},
	}
}

func TestVerifC03World(t *testing.T) { runSpecs(t, "C03", c03Specs()) }
