package tor

import (
	"fmt"
	"os"
	"testing"
	"time"
)

// TestVerifBench times world executions (development aid; VERIF_BENCH=1).
func TestVerifBench(t *testing.T) {
	if os.Getenv("VERIF_BENCH") == "" {
		t.Skip()
	}
	for _, s := range append(c05Specs()[:4], c09Specs()[0]) {
		t0 := time.Now()
		n := 200
		for i := 0; i < n; i++ {
			runWorld(t, s, nil, false)
		}
		fmt.Printf("%s: %.2f ms per root run\n", s.Name, float64(time.Since(t0).Microseconds())/1000/float64(n))
	}
}
