package tor

import (
	"fmt"
	"os"
	"testing"
	"testing/synctest"
	"time"
)

// TestVerifBench times world executions (development aid; VERIF_BENCH=1).
func TestVerifBench(t *testing.T) {
	if os.Getenv("VERIF_BENCH") == "" {
		t.Skip()
	}
	for _, s := range append(c05Specs()[:4], c09Specs()[0]) {
		t0 := time.Now()
		n := 200
		for i := 0; i < n; i++ {
			runWorld(t, s, nil, false)
		}
		fmt.Printf("%s: %.2f ms per root run\n", s.Name, float64(time.Since(t0).Microseconds())/1000/float64(n))
	}
}

func TestVerifCtlDump(t *testing.T) {
	if os.Getenv("VERIF_CTLDUMP") == "" {
		t.Skip()
	}
	synctest.Test(t, func(t *testing.T) {
		w := newWorld(worldCfg{Geom: "gshort", Peers: []peerCfg{{Fast: true, Ext: true, DontHave: 7}}, Have: []int{0, 2}, AutoDrain: true})
		w.settle()
		fmt.Println("repoRoot", repoRoot)
		for _, s := range ctlSigs() {
			fmt.Println("SIG", s)
		}
		for _, tr := range []string{"interested:0", "unchokepeer:0", "stall:0", "flood:0:251", "adv:2", "notinterested:0"} {
			w.apply(tr)
		}
		for _, s := range ctlSigs() {
			fmt.Println("SIG2", s)
		}
		w.dispose()
	})
}
