package tor

// C12: magnet metadata is accepted only if authentic, whatever peers send,
// and still completes once honest blocks arrive.

import (
	"fmt"
	"testing"
)

// metadataLiveness: from a state in which the true size holds a strict
// plurality of the votes, the fair continuation "tick; the honest peer answers
// everything it was asked", repeated, reaches completion.
func metadataLiveness(w *World) {
	t := w.t
	if t.InfoComplete() || w.loopDead {
		return
	}
	trueSize := uint32(len(w.info))
	best, second := 0, 0
	for s, c := range t.infoSizeVotes {
		if s == trueSize {
			best = c
		} else if c > second {
			second = c
		}
	}
	if best <= second {
		return // tied or losing vote: the guess depends on map order; safety only
	}
	// an honest peer: one that is connected and has announced the true size
	// (the last such remote; in the worlds with pre-configured peers that is the last remote)
	var honest *remote
	for _, r := range w.remotes {
		if !r.closed && !r.exited() && r.sentExt0 && r.votedSize == trueSize && r.idx != 0 {
			honest = r
		}
	}
	if honest == nil {
		return
	}
	// the peers asked on each tick are drawn from the torrent's (seeded) PRNG:
	// with a silent hostile peer still connected, enough rounds are allowed for
	// the draw to reach the honest one with overwhelming probability
	rounds := 48
	for i := 0; i < rounds && !t.InfoComplete(); i++ {
		w.apply("mtick")
		if !w.cfg.AutoDrain {
			w.deliver(-1)
		}
		if w.can(fmt.Sprintf("manswer:%d", honest.idx)) {
			w.apply(fmt.Sprintf("manswer:%d", honest.idx))
		}
		if !w.cfg.AutoDrain {
			w.deliver(-1)
		}
		w.checkInvariants()
	}
	if !t.InfoComplete() && len(w.prob) == 0 {
		w.problem("C12", "C12/never-completes", "with the true size holding the majority and an honest peer answering every request, the metadata still is not complete after %d request/answer rounds", rounds)
	}
}

func c12Specs() []*bfsSpec {
	var specs []*bfsSpec
	for _, size := range []int{0, 16384, 16385, 32768, 40000, 49152} {
		hostile := peerCfg{Fast: true, Ext: true, Metadata: 8, Pex: 9, DontHave: 7}
		honest := peerCfg{Fast: true, Ext: true, Metadata: 8, Pex: 9, DontHave: 7, MetadataSize: 1} // replaced below
		cfg := worldCfg{Geom: "gtail", Magnet: true, AutoDrain: true, InfoSize: size}
		// the honest peers announce the true size (two of them, so that a
		// single hostile vote cannot tie)
		alpha := []string{"mtick", "manswer:1", "manswer:2", "mreject:1", "close:1"}
		nblocks := 1
		if size > 0 {
			nblocks = (size + wchunk - 1) / wchunk
		}
		for idx := 0; idx <= nblocks+1; idx++ {
			for _, content := range []string{"true", "forged"} {
				for _, total := range []string{"true", "0", "other"} {
					for _, l := range []string{"tail", "tail-1", "tail+1", "chunk", "chunk+1", "0", "1"} {
						if content == "true" && total == "true" && l == "tail" {
							alpha = append(alpha, fmt.Sprintf("mdata:1:%d:true:true:tail", idx))
						}
						if total == "other" && l != "tail" {
							continue
						}
						alpha = append(alpha, fmt.Sprintf("mdata:0:%d:%s:%s:%s", idx, content, total, l))
					}
				}
			}
		}
		alpha = append(alpha, fmt.Sprintf("mdata:0:%d:forged:true:chunk", 1<<20), "mdata:0:4294967295:forged:true:chunk")
		_, _ = honest, hostile
		specs = append(specs, &bfsSpec{Name: fmt.Sprintf("c12-size%d", size), Cfg: cfg, Alphabet: alpha, Depth: 3, DepthT: 4, Live: metadataLiveness})
	}
	// authentic but degenerate dictionaries: the magnet names their hash, honest
	// peers deliver them; they must never make the torrent usable, nor crash it
	for _, kind := range []string{"zero-piece-length", "odd-piece-length", "short-pieces", "long-pieces", "odd-pieces", "no-name", "neg-file", "wrap-files", "not-a-dict", "huge-length"} {
		cfg := worldCfg{Geom: "gtail", Magnet: true, AutoDrain: true, InfoKind: kind}
		specs = append(specs, &bfsSpec{Name: "c12-degenerate-" + kind, Cfg: cfg,
			Alphabet: []string{"mtick", "manswer:1", "manswer:2", "mdata:1:0:true:true:tail", "mdata:0:0:forged:true:tail", "close:1", "want:0:1", "tick"}, Depth: 4, DepthT: 5})
	}
	// the torrent's loop lags behind: blocks sit in its event queue while the
	// same remote already sends its next messages
	for _, size := range []int{0, 16385, 20000} {
		cfg := worldCfg{Geom: "gtail", Magnet: true, InfoSize: size}
		specs = append(specs, &bfsSpec{Name: fmt.Sprintf("c12-lagging-loop%d", size), Cfg: cfg,
			Setup:    []string{"drain"},
			Alphabet: []string{"mtick", "manswer:1", "manswer:2", "have:1:0", "bf:2:7", "ev", "drain", "adv:6"},
			Depth: 5, DepthT: 7, Live: metadataLiveness})
	}
	// size votes arrive one by one: a hostile peer announces a too-large size and
	// fills the buffer sized for it before two honest peers out-vote it
	for _, size := range []int{20000, 40000} {
		silent := peerCfg{Fast: true, Ext: true, NoExt0: true, Metadata: 8, Pex: 9, DontHave: 7}
		cfg := worldCfg{Geom: "gtail", Magnet: true, AutoDrain: true, InfoSize: size, Peers: []peerCfg{silent, silent, silent}}
		specs = append(specs, &bfsSpec{BothMapOrders: true, Name: fmt.Sprintf("c12-votes%d", size), Cfg: cfg,
			Alphabet: []string{"vote:0:100000", "vote:1:true", "vote:2:true", "mdata:0:0:forged:100000:chunk", "mdata:0:1:forged:100000:chunk", "mdata:0:2:forged:100000:chunk",
				"mdata:0:0:true:100000:chunk", "mtick", "manswer:1"},
			Depth: 5, DepthT: 6, Live: metadataLiveness})
	}
	return specs
}

func TestVerifC12(t *testing.T) {
	specs := c12Specs()
	// peers are configured once the true metadata size of each world is known
	for _, s := range specs {
		if s.Cfg.Peers != nil {
			continue
		}
		g := geomByName(s.Cfg.Geom)
		truth := make([]byte, g.Length)
		for i := range truth {
			truth[i] = wtruthByte(int64(i))
		}
		size := uint32(len(buildInfo(g, truth, "world", s.Cfg.InfoSize)))
		if s.Cfg.InfoKind != "" {
			// the peers announce the size of the dictionary they actually serve
			size = uint32(len(degenerateInfo(g, truth, s.Cfg.InfoKind)))
		}
		hostile := peerCfg{Fast: true, Ext: true, Metadata: 8, Pex: 9, DontHave: 7, MetadataSize: size}
		honest := hostile
		s.Cfg.Peers = []peerCfg{hostile, honest, honest}
	}
	runSpecs(t, "C12", specs)
}
