package tor

// C14: web-seed data lands exactly where it belongs.
//  (a) fileChunks over all small file tables x ranges;
//  (b) the writer under every split of the incoming byte stream;
//  (c) the fetch end to end (real maybeWebseed -> webseedGR/webseedH ->
//      GetRight.Get / Hoffman.Get) against a scripted HTTP server.

import (
	"bytes"
	"context"
	"errors"
	"fmt"
	"io"
	"math/rand/v2"
	"net/http"
	"os"
	"sort"
	"strings"
	"sync"
	"testing"
	"testing/synctest"
	"time"

	"github.com/jech/storrent/config"
	"github.com/jech/storrent/httpclient"
	"github.com/jech/storrent/peer"
	"github.com/jech/storrent/webseed"
	fixture "github.com/jech/storrent/zzverif/fixmeta"
	rc "github.com/jech/storrent/zzverif/refcodec"
	"github.com/jech/storrent/zzverif/vh"
)

type c14 struct {
	res     *vh.Result
	nontriv map[string]bool
}

func (h *c14) viol(key, format string, a ...any) {
	msg := fmt.Sprintf(format, a...)
	h.res.Violate(key, msg, map[string]any{"detail": msg})
}

// --- (a) fileChunks -----------------------------------------------------------

func (h *c14) chunksCase(files []fixture.File, psize int) {
	meta, _ := fixture.Metainfo("fc", files, psize, nil)
	t, err := ReadTorrent("", bytes.NewReader(meta))
	if err != nil {
		return
	}
	var l []string
	for _, f := range files {
		l = append(l, fmt.Sprintf("%s:%d:%v", strings.Join(f.Path, "/"), f.Length, f.Padding))
	}
	h.chunksOn(t, psize, len(files), "[files "+strings.Join(l, " ")+"]", nil)
}

// chunksOn judges fileChunks on the torrent t.  pieces == nil: every piece and every
// hole maybeWebseed can produce; otherwise only the listed pieces, with a boundary
// alphabet of offsets and lengths (for torrents whose pieces have hundreds of blocks).
func (h *c14) chunksOn(t *Torrent, psize int, nfiles int, description string, pieces []uint32) {
	total := t.Pieces.Length()
	desc := func() string { return description }
	check := func(index, offset, length uint32) {
		h.res.Add("evaluations", 1)
		var fcs []filechunk
		var pan any
		func() {
			defer func() { pan = recover() }()
			fcs = fileChunks(t, index, offset, length)
		}()
		where := fmt.Sprintf("fileChunks(piece %d, offset %d, length %d) %s", index, offset, length, desc())
		if pan != nil {
			h.viol("C14/filechunks-panic", "%s panicked: %v", where, pan)
			return
		}
		o := int64(index)*int64(psize) + int64(offset)
		end := o + int64(length)
		if end > total {
			end = total
		}
		pos := o
		if t.Files == nil {
			if len(fcs) != 1 || fcs[0].path != nil || fcs[0].filelength != total || fcs[0].offset != o || fcs[0].length != int64(length) || fcs[0].pad {
				h.viol("C14/filechunks-single-file", "%s: a single-file torrent must map to one chunk (nil path, file length %d, offset %d, length %d), got %+v", where, total, o, length, fcs)
			}
			return
		}
		for _, fc := range fcs {
			// which file does the torrent position belong to?
			fi := -1
			for i, f := range t.Files {
				if f.Length > 0 && pos >= f.Offset && pos < f.Offset+f.Length {
					fi = i
					break
				}
			}
			if fi < 0 {
				h.viol("C14/filechunks-overrun", "%s: a chunk starts at torrent offset %d which belongs to no file", where, pos)
				return
			}
			f := t.Files[fi]
			if fc.length <= 0 {
				h.viol("C14/filechunks-empty-chunk", "%s: a chunk of length %d (file %v)", where, fc.length, fc.path)
				return
			}
			if !fc.path.Equal(f.Path) || fc.filelength != f.Length || fc.pad != f.Padding {
				h.viol("C14/filechunks-wrong-file", "%s: the chunk at torrent offset %d is attributed to %v (length %d pad %v), it lies in %v (length %d pad %v)", where, pos, fc.path, fc.filelength, fc.pad, f.Path, f.Length, f.Padding)
				return
			}
			if fc.offset != pos-f.Offset || fc.offset < 0 || fc.offset+fc.length > f.Length {
				h.viol("C14/filechunks-wrong-range", "%s: chunk (file offset %d, length %d) of file %v (length %d); the torrent offset %d is file offset %d", where, fc.offset, fc.length, f.Path, f.Length, pos, pos-f.Offset)
				return
			}
			pos += fc.length
		}
		if pos != end && !(o >= total && len(fcs) == 0) {
			h.viol("C14/filechunks-coverage", "%s: the chunks cover torrent range [%d,%d), the request is [%d,%d)", where, o, pos, o, end)
		}
		h.nontriv[fmt.Sprintf("fc/%d/%d/%v", len(fcs), nfiles, o >= 1<<32)] = true
	}
	np := uint32((total + int64(psize) - 1) / int64(psize))
	if pieces != nil {
		for _, idx := range pieces {
			if idx >= np {
				continue
			}
			pl := t.Pieces.PieceLength(idx)
			base := int64(idx) * int64(psize)
			offs := map[uint32]bool{0: true, 16384: true, (pl - 1) / 16384 * 16384: true}
			// the blocks that contain a file boundary or a multiple of 4 GiB, and their neighbours
			marks := []int64{1 << 32, 1 << 33}
			for _, f := range t.Files {
				marks = append(marks, f.Offset, f.Offset+f.Length)
			}
			for _, m := range marks {
				for _, d := range []int64{-16384, 0, 16384} {
					if x := m - base + d; x >= 0 && x < int64(pl) {
						offs[uint32(x)/16384*16384] = true
					}
				}
			}
			for _, off := range vmapKeysU32(offs) {
				if off >= pl {
					continue
				}
				for _, l := range []uint32{16384, 32768, 5 * 16384, pl - off} {
					if off+l > pl {
						l = pl - off
					}
					check(idx, off, l)
				}
				for _, tr := range [][2]uint32{{off + 1, 1}, {off + 100, 16384}, {off + 16383, 2}} {
					if tr[0] < pl && tr[0]+tr[1] <= pl {
						check(idx, tr[0], tr[1])
					}
				}
			}
		}
		return
	}
	for idx := uint32(0); idx < np; idx++ {
		pl := t.Pieces.PieceLength(idx)
		for off := uint32(0); off < pl; off += 16384 {
			// what maybeWebseed produces: a hole from off to a block boundary or the end of the piece
			for l := uint32(16384); ; l += 16384 {
				if off+l >= pl {
					check(idx, off, pl-off)
					break
				}
				check(idx, off, l)
			}
		}
		// arbitrary unaligned triples
		for _, tr := range [][2]uint32{{1, 1}, {100, 16384}, {16383, 2}, {0, pl}, {pl - 1, 1}, {5, pl - 5}} {
			if tr[0] < pl && tr[0]+tr[1] <= pl && tr[1] > 0 {
				check(idx, tr[0], tr[1])
			}
		}
	}
}

func vmapKeysU32(m map[uint32]bool) []uint32 {
	var l []uint32
	for k := range m {
		l = append(l, k)
	}
	sort.Slice(l, func(i, j int) bool { return l[i] < l[j] })
	return l
}

// chunksHuge: file tables whose total exceeds 4 GiB (and 8 GiB), piece lengths that are
// and are not powers of two; the pieces around every multiple of 4 GiB, around every
// file boundary, and the first and last ones.  No piece data is needed for fileChunks.
func (h *c14) chunksHuge(mine func() bool) {
	type lay struct {
		name  string
		files [][2]int64 // length, padding flag
	}
	const G = int64(1) << 30
	lays := []lay{
		{"single", nil},
		{"big+small+tail", [][2]int64{{4*G + 100, 0}, {16284, 0}, {40000, 0}}},
		{"3G+3G", [][2]int64{{3 * G, 0}, {3*G + 5, 0}}},
		{"boundary-at-4G", [][2]int64{{4*G - 16384, 0}, {16384, 0}, {1 << 20, 0}}},
		{"boundary-at-4G+1", [][2]int64{{4*G + 1, 0}, {0, 0}, {70000, 0}}},
		{"pad-across-4G", [][2]int64{{4*G - 100, 0}, {200, 1}, {5 * G, 0}}},
		{"small-then-big", [][2]int64{{1, 0}, {9 * G, 0}, {16385, 0}}},
	}
	for _, pl := range []int64{1 << 20, 1<<20 + 16384, 3 << 20, 1 << 24} {
		for _, la := range lays {
			if !mine() {
				continue
			}
			var total int64
			var fl []rc.Value
			var l []string
			for i, f := range la.files {
				var attr rc.Value
				if f[1] != 0 {
					attr = "p"
				}
				fl = append(fl, fileEntry(f[0], plist(fmt.Sprintf("f%d", i)), attr, nil))
				l = append(l, fmt.Sprintf("f%d:%d:%v", i, f[0], f[1] != 0))
				total += f[0]
			}
			var info *rc.Dict
			if la.files == nil {
				total = 5*G + 7
				n := int((total + pl - 1) / pl)
				info = dict(kv{"length", total}, kv{"name", "huge"}, kv{"piece length", pl}, kv{"pieces", hashes(n)})
			} else {
				n := int((total + pl - 1) / pl)
				info = dict(kv{"files", fl}, kv{"name", "huge"}, kv{"piece length", pl}, kv{"pieces", hashes(n)})
			}
			t, err := ReadTorrent("", bytes.NewReader(rc.Bencode(dict(kv{"info", info}))))
			if err != nil {
				h.viol("C14/huge-fixture", "cannot build the %s torrent with piece length %d: %v", la.name, pl, err)
				continue
			}
			np := uint32((total + pl - 1) / pl)
			ps := map[uint32]bool{0: true, 1: true, np - 1: true, np - 2: true}
			marks := []int64{1 << 32, 1 << 33}
			for _, f := range t.Files {
				marks = append(marks, f.Offset, f.Offset+f.Length)
			}
			for _, m := range marks {
				for d := int64(-2); d <= 1; d++ {
					if x := m/pl + d; x >= 0 && x < int64(np) {
						ps[uint32(x)] = true
					}
				}
			}
			h.chunksOn(t, int(pl), len(la.files), fmt.Sprintf("[huge %s, piece length %d, files %s]", la.name, pl, strings.Join(l, " ")), vmapKeysU32(ps))
			h.res.Add("huge_file_tables", 1)
		}
	}
}

// --- (b) the writer -------------------------------------------------------------

type splitReader struct {
	data  []byte
	segs  []int
	k     int
	pos   int
	delay time.Duration // virtual time each read takes (bubble only)
	eofWithData bool    // the read that delivers the last bytes also returns io.EOF
	zero  bool  // deliver a (0, nil) read before each segment
	errAt int   // fail at this position (<0 never)
	z     bool
}

func (s *splitReader) Read(p []byte) (int, error) {
	if s.delay > 0 {
		time.Sleep(s.delay)
	}
	if s.zero && !s.z {
		s.z = true
		return 0, nil
	}
	s.z = false
	if s.errAt >= 0 && s.pos >= s.errAt {
		return 0, errors.New("scripted body error")
	}
	if s.pos >= len(s.data) {
		return 0, io.EOF
	}
	n := len(s.data) - s.pos
	if s.k < len(s.segs) && s.segs[s.k] < n {
		n = s.segs[s.k]
	}
	s.k++
	if s.errAt >= 0 && s.pos+n > s.errAt {
		n = s.errAt - s.pos
	}
	if n > len(p) {
		n = len(p)
	}
	copy(p, s.data[s.pos:s.pos+n])
	s.pos += n
	if s.eofWithData && s.pos >= len(s.data) {
		return n, io.EOF
	}
	return n, nil
}

// writerWorld is a torrent (no loop; the harness drains t.Event) prepared for one writer run.
type writerWorld struct {
	t     *Torrent
	truth []byte
	g     wgeom
	ctx   context.Context
}

func newWriterWorld(geom string) *writerWorld {
	g := wgeoms[geom]
	truth, ok := truthCache[g.Length]
	if !ok {
		truth = make([]byte, g.Length)
		for i := range truth {
			truth[i] = wtruthByte(int64(i))
		}
		truthCache[g.Length] = truth
	}
	info := buildInfo(g, truth, "world", 0)
	t, err := New("", sha1sum(info), "", info, 0, nil, nil)
	if err == nil {
		err = t.MetadataComplete()
	}
	if err != nil {
		panic(err)
	}
	t.Log = discardLog
	t.Event = make(chan peer.TorEvent, 4096)
	t.Done = make(chan struct{})
	t.Deleted = make(chan struct{})
	t.rand = rand.New(rand.NewPCG(1, 2))
	return &writerWorld{t: t, truth: truth, g: g, ctx: context.Background()}
}

// runWriter pushes body through a writer for (index, offset, length) using mode and checks everything.
func (h *c14) runWriter(geom string, index, offset, length uint32, body []byte, mode string, segs []int, zero bool, errAt int) {
	h.res.Add("evaluations", 1)
	w := newWriterWorld(geom)
	t := w.t
	g := w.g
	cpp := g.cpp()
	first := index*cpp + offset/wchunk
	nblocks := (length + wchunk - 1) / wchunk
	// reserve the blocks as maybeWebseed does
	for i := uint32(0); i < nblocks; i++ {
		noteInFlight(t, first+i, true)
	}
	_, before := t.Pieces.PieceBitmap(index)
	wr := NewWriter(t, index, offset, length)
	where := fmt.Sprintf("[geometry %s, range piece %d offset %d length %d, body %d bytes, %s segs %v zero-reads %v error-at %d]", geom, index, offset, length, len(body), mode, segs, zero, errAt)
	accepted := int64(0)
	var pan any
	func() {
		defer func() { pan = recover() }()
		switch mode {
		case "write":
			pos := 0
			k := 0
			for pos < len(body) {
				n := len(body) - pos
				if k < len(segs) && segs[k] < n {
					n = segs[k]
				}
				k++
				m, err := wr.Write(body[pos : pos+n])
				accepted += int64(m)
				pos += n
				if err != nil {
					break
				}
			}
		case "readfrom":
			n, _ := wr.ReadFrom(&splitReader{data: body, segs: segs, zero: zero, errAt: errAt})
			accepted += n
		case "multi": // the range arrives through several consecutive copies into the same writer,
			// as when a fetch spans several files (segs = lengths of the parts)
			pos := 0
			for _, pl := range append(append([]int{}, segs...), len(body)) {
				if pos >= len(body) {
					break
				}
				e := pos + pl
				if e > len(body) {
					e = len(body)
				}
				n, err := io.Copy(wr, &splitReader{data: body[pos:e], errAt: -1, eofWithData: zero})
				accepted += n
				pos = e
				// (the writer's ReadFrom reports a source's io.EOF as its error;
				// its callers ignore that, and so does the harness)
				if err != nil && err != io.EOF {
					break
				}
			}
		case "copy": // io.Copy picks ReadFrom; a LimitReader in front, as GetRight does
			n, _ := io.Copy(wr, io.LimitReader(&splitReader{data: body, segs: segs, zero: zero, errAt: errAt}, int64(length)))
			accepted += n
		}
		wr.Close()
	}()
	if pan != nil {
		h.viol("C14/writer-panic", "the writer panicked: %v %s", pan, where)
		return
	}
	if accepted > int64(length) {
		h.viol("C14/writer-accepts-beyond-range", "the writer accepted %d bytes for a range of %d %s", accepted, length, where)
	}
	// events -> real handleEvent
	for {
		select {
		case e := <-t.Event:
			switch ev := e.(type) {
			case peer.TorData:
				s := int64(ev.Index)*int64(g.PSize) + int64(ev.Begin)
				lo := int64(index)*int64(g.PSize) + int64(offset)
				if ev.Index != index || s < lo || s+int64(ev.Length) > lo+int64(length) || ev.Begin%wchunk != 0 {
					h.viol("C14/writer-data-outside-range", "TorData{%d,%d,%d} lies outside the writer's range %s", ev.Index, ev.Begin, ev.Length, where)
				}
				ev.Complete = false // hashing is exercised separately below
				e = ev
			case peer.TorDrop:
				s := int64(ev.Index)*int64(g.PSize) + int64(ev.Begin)
				lo := int64(index)*int64(g.PSize) + int64(offset)
				if ev.Index != index || s < lo || s+int64(ev.Length) > lo+int64(length) {
					h.viol("C14/writer-drop-outside-range", "TorDrop{%d,%d,%d} lies outside the writer's range %s", ev.Index, ev.Begin, ev.Length, where)
				}
			}
			var hp any
			func() {
				defer func() { hp = recover() }()
				handleEvent(w.ctx, t, e)
			}()
			if hp != nil {
				h.viol("C14/handle-panic", "handleEvent(%T) panicked: %v %s", e, hp, where)
				return
			}
			continue
		default:
		}
		break
	}
	for c, v := range t.inFlight {
		if v != 0 {
			h.viol("C14/reservation-not-released", "after the fetch ended block %d is still marked in flight (%d) %s", c, v, where)
			break
		}
	}
	// nothing outside the range changed
	_, after := t.Pieces.PieceBitmap(index)
	nchunks := int((g.pieceLen(index) + wchunk - 1) / wchunk)
	for c := 0; c < nchunks; c++ {
		in := uint32(c) >= offset/wchunk && uint32(c) < offset/wchunk+nblocks
		if !in && before.Get(c) != after.Get(c) {
			h.viol("C14/writer-touches-outside-range", "block %d of the piece changed although it is outside the range %s", c, where)
		}
	}
	// what was delivered in full, without an error, landed: every block that the
	// delivered bytes cover completely is in the store
	// (streams that contain empty reads are left out: the writer treats a read of
	// zero bytes as the end of the stream, which loses nothing but the rest of the fetch)
	if errAt < 0 && offset%wchunk == 0 && (mode == "multi" || !zero) {
		deliv := uint32(len(body))
		if deliv > length {
			deliv = length
		}
		for c := offset / wchunk; c < offset/wchunk+nblocks; c++ {
			bs := c * wchunk
			be := bs + wchunk
			if be > g.pieceLen(index) {
				be = g.pieceLen(index)
			}
			if be <= offset+deliv && !after.Get(int(c)) {
				h.viol("C14/writer-drops-delivered-data", "block %d of the piece was delivered completely and without error but is not in the store %s", c, where)
				break
			}
		}
	}
	// whatever was stored is true content: complete the piece with true data and hash it
	pl := g.pieceLen(index)
	s := int64(index) * int64(g.PSize)
	t.Pieces.AddData(index, 0, append([]byte{}, w.truth[s:s+int64(pl)]...), ^uint32(0))
	done, _, err := t.Pieces.Finalise(index, t.PieceHashes[index])
	if !done {
		h.viol("C14/writer-stored-wrong-bytes", "after completing the piece with true data its hash does not match: the writer stored wrong bytes (%v) %s", err, where)
	}
	t.Pieces.Del()
	stored := 0
	for c := 0; c < nchunks; c++ {
		if after.Get(c) {
			stored++
		}
	}
	h.nontriv[fmt.Sprintf("w/%s/%d/%d/%s/%d/%d", geom, offset, length, mode, len(body)*10/int(length+1), stored)] = true
}

// --- (c) end to end ---------------------------------------------------------------

type seedServer struct {
	mu       sync.Mutex
	mode     string
	truth    []byte // of the file being served
	requests []string
	chunk    int
	delay    time.Duration
	files    map[string][]byte // multi-file seeds: URL path -> content of that file
}

func (s *seedServer) RoundTrip(req *http.Request) (*http.Response, error) {
	s.mu.Lock()
	defer s.mu.Unlock()
	rg := req.Header.Get("Range")
	s.requests = append(s.requests, req.URL.String()+" "+rg)
	var a, b int64
	hasRange := false
	if n, _ := fmt.Sscanf(rg, "bytes=%d-%d", &a, &b); n == 2 {
		hasRange = true
	}
	if strings.Contains(req.URL.RawQuery, "ranges=") {
		// Hoffman style: ranges=a-b (exclusive end in storrent's rendering)
		var pa, pb int64
		var piece int64
		for _, kv := range strings.Split(req.URL.RawQuery, "&") {
			fmt.Sscanf(kv, "ranges=%d-%d", &pa, &pb)
			fmt.Sscanf(kv, "piece=%d", &piece)
		}
		a, b = piece*2*wchunk+pa, piece*2*wchunk+pb-1
		hasRange = true
	}
	if s.files != nil {
		f, ok := s.files[req.URL.Path]
		if !ok {
			return &http.Response{StatusCode: 404, Status: "404 no such file", Proto: "HTTP/1.1", ProtoMajor: 1, ProtoMinor: 1, Header: http.Header{}, Body: io.NopCloser(strings.NewReader("")), Request: req}, nil
		}
		s.truth = f
	}
	L := int64(len(s.truth))
	if b >= L {
		b = L - 1
	}
	hoffman := strings.Contains(req.URL.RawQuery, "ranges=")
	mk := func(code int, hdr map[string]string, body []byte, cl int64) *http.Response {
		h := http.Header{}
		for k, v := range hdr {
			h.Set(k, v)
		}
		return &http.Response{StatusCode: code, Status: fmt.Sprintf("%d scripted", code), Proto: "HTTP/1.1", ProtoMajor: 1, ProtoMinor: 1, Header: h,
			Body: io.NopCloser(&splitReader{data: body, segs: []int{s.chunk, s.chunk, s.chunk, s.chunk, s.chunk, s.chunk}, errAt: -1, delay: s.delay}), Request: req, ContentLength: cl}
	}
	if !hasRange || a > b {
		return mk(416, nil, nil, 0), nil
	}
	part := s.truth[a : b+1]
	cr := fmt.Sprintf("bytes %d-%d/%d", a, b, L)
	switch s.mode {
	case "honoured":
		return mk(206, map[string]string{"Content-Range": cr}, part, int64(len(part))), nil
	case "shifted":
		return mk(206, map[string]string{"Content-Range": fmt.Sprintf("bytes %d-%d/%d", a+1, b, L)}, s.truth[a+1:b+1], -1), nil
	case "shorter-range":
		if b-a < 2 {
			return mk(206, map[string]string{"Content-Range": cr}, part, -1), nil
		}
		return mk(206, map[string]string{"Content-Range": fmt.Sprintf("bytes %d-%d/%d", a, b-1, L)}, s.truth[a:b], -1), nil
	case "longer-range":
		e := b + 100
		if e >= L {
			e = L - 1
		}
		return mk(206, map[string]string{"Content-Range": fmt.Sprintf("bytes %d-%d/%d", a, e, L)}, s.truth[a:e+1], -1), nil
	case "wrong-total":
		return mk(206, map[string]string{"Content-Range": fmt.Sprintf("bytes %d-%d/%d", a, b, L+1)}, part, -1), nil
	case "star-total":
		return mk(206, map[string]string{"Content-Range": fmt.Sprintf("bytes %d-%d/*", a, b)}, part, -1), nil
	case "malformed-range":
		return mk(206, map[string]string{"Content-Range": "bytes zero-one/two"}, part, -1), nil
	case "missing-range":
		return mk(206, nil, part, -1), nil
	case "200-full":
		if hoffman {
			// for a Hoffman seed 200 is the normal answer and carries the range asked for
			return mk(200, map[string]string{"Content-Length": fmt.Sprint(len(part))}, part, int64(len(part))), nil
		}
		return mk(200, map[string]string{"Content-Length": fmt.Sprint(L)}, s.truth, L), nil
	case "200-nolength":
		if hoffman {
			return mk(200, nil, part, -1), nil
		}
		return mk(200, nil, s.truth, -1), nil
	case "200-badlength":
		if hoffman {
			return mk(200, map[string]string{"Content-Length": "many"}, part, -1), nil
		}
		return mk(200, map[string]string{"Content-Length": "many"}, s.truth, -1), nil
	case "416":
		return mk(416, map[string]string{"Content-Range": fmt.Sprintf("bytes */%d", L)}, nil, 0), nil
	case "416-norange":
		return mk(416, nil, nil, 0), nil
	case "404":
		return mk(404, nil, []byte("no"), 2), nil
	case "500":
		return mk(500, nil, []byte("no"), 2), nil
	case "transport-error":
		return nil, errors.New("scripted transport error")
	case "body-short":
		return mk(206, map[string]string{"Content-Range": cr}, part[:len(part)/2], int64(len(part))), nil
	case "body-long":
		return mk(206, map[string]string{"Content-Range": cr}, append(append([]byte{}, part...), bytes.Repeat([]byte{0xEE}, 40000)...), -1), nil
	case "body-garbage":
		return mk(206, map[string]string{"Content-Range": cr}, bytes.Repeat([]byte{0xEE}, len(part)), -1), nil
	case "body-fails-mid":
		r := mk(206, map[string]string{"Content-Range": cr}, part, -1)
		r.Body = io.NopCloser(&splitReader{data: part, segs: []int{s.chunk}, errAt: len(part)/2 + 1})
		return r, nil
	}
	panic("unknown server mode " + s.mode)
}

var seedModes = []string{"honoured", "shifted", "shorter-range", "longer-range", "wrong-total", "star-total", "malformed-range", "missing-range", "200-full", "200-nolength", "200-badlength",
	"416", "416-norange", "404", "500", "transport-error", "body-short", "body-long", "body-garbage", "body-fails-mid"}

func (h *c14) endToEnd(t *testing.T, mode string, hoffman bool, piece uint32, prefill []uint32, chunk int) {
	h.res.Add("evaluations", 1)
	synctest.Test(t, func(t *testing.T) {
		peer.VerifReset()
		config.DefaultUseWebseeds = true
		config.PrefetchRate = 768 * 1024
		w := newWriterWorld("gtail")
		tor := w.t
		tor.useWebseeds = true
		srv := &seedServer{mode: mode, truth: w.truth, chunk: chunk}
		httpclient.VerifInstall("", "", srv)
		ws := webseed.New("http://seed.example/f", !hoffman)
		tor.webseeds = []webseed.Webseed{ws}
		for _, c := range prefill {
			// some blocks of the piece are already there: the hole starts later
			s := int64(piece)*int64(w.g.PSize) + int64(c)*wchunk
			tor.Pieces.AddData(piece, c*wchunk, append([]byte{}, w.truth[s:s+int64(w.g.chunkLen(piece*w.g.cpp()+c))]...), ^uint32(0))
		}
		where := fmt.Sprintf("[server %s, hoffman=%v, piece %d, blocks present %v, body chunking %d]", mode, hoffman, piece, prefill, chunk)
		var pan any
		started := false
		func() {
			defer func() { pan = recover() }()
			started = maybeWebseed(w.ctx, tor, piece, false)
		}()
		if pan != nil {
			h.viol("C14/webseed-panic", "maybeWebseed panicked: %v %s", pan, where)
			return
		}
		synctest.Wait()
		time.Sleep(2 * time.Minute)
		synctest.Wait()
		if ws.Count() != 0 {
			h.viol("C14/webseed-count", "the web seed still counts %d running fetches after the fetch ended %s", ws.Count(), where)
		}
		for {
			select {
			case e := <-tor.Event:
				if d, ok := e.(peer.TorData); ok {
					d.Complete = false
					e = d
				}
				var hp any
				func() {
					defer func() { hp = recover() }()
					handleEvent(w.ctx, tor, e)
				}()
				if hp != nil {
					h.viol("C14/handle-panic", "handleEvent(%T) panicked: %v %s", e, hp, where)
					return
				}
				continue
			default:
			}
			break
		}
		for c, v := range tor.inFlight {
			if v != 0 {
				h.viol("C14/reservation-not-released", "block %d is still marked in flight (%d) after the web-seed fetch ended %s", c, v, where)
				break
			}
		}
		// the request names the right resource and range
		srv.mu.Lock()
		reqs := append([]string{}, srv.requests...)
		srv.mu.Unlock()
		if started && len(reqs) == 0 {
			h.viol("C14/no-request", "a fetch was started but the server received nothing %s", where)
		}
		if !hoffman {
			for _, r := range reqs {
				var a, b int64
				u, rg, _ := strings.Cut(r, " ")
				if u != "http://seed.example/f" {
					h.viol("C14/wrong-url", "the fetch asked for %q %s", u, where)
				}
				if n, _ := fmt.Sscanf(rg, "bytes=%d-%d", &a, &b); n != 2 || a < int64(piece)*int64(w.g.PSize) || b >= int64(piece)*int64(w.g.PSize)+int64(w.g.pieceLen(piece)) || a > b {
					h.viol("C14/wrong-range-requested", "the fetch asked for %q, piece %d spans [%d,%d) %s", rg, piece, int64(piece)*int64(w.g.PSize), int64(piece)*int64(w.g.PSize)+int64(w.g.pieceLen(piece)), where)
				}
			}
		}
		// whatever was stored is the true content
		pl := w.g.pieceLen(piece)
		s := int64(piece) * int64(w.g.PSize)
		tor.Pieces.AddData(piece, 0, append([]byte{}, w.truth[s:s+int64(pl)]...), ^uint32(0))
		// (a server that sends other bytes than the ones it announces can only
		// be caught by the piece hash: not judged here)
		lying := mode == "body-garbage" || (hoffman && (mode == "shifted" || mode == "shorter-range" || mode == "longer-range"))
		if done, _, err := tor.Pieces.Finalise(piece, tor.PieceHashes[piece]); !done && !lying {
			h.viol("C14/webseed-stored-wrong-bytes", "after completing the piece with true data its hash does not match: the fetch stored wrong bytes (%v) %s", err, where)
		}
		// other pieces untouched
		for i := 0; i < w.g.npieces(); i++ {
			if uint32(i) != piece && !tor.Pieces.PieceEmpty(uint32(i)) {
				h.viol("C14/webseed-touches-other-piece", "piece %d received data from a fetch for piece %d %s", i, piece, where)
			}
		}
		tor.Pieces.Del()
		h.nontriv[fmt.Sprintf("e2e/%s/%v/%d/%v/%d", mode, hoffman, piece, prefill, len(reqs))] = true
	})
}

// multiFile: fetches that span several files (and a padding file) of a
// multi-file torrent, through the real maybeWebseed -> webseedGR -> GetRight.Get.
func (h *c14) multiFile(t *testing.T, mode string, chunk int, eofData bool) {
	h.multiFileLayout(t, mode, chunk, 32768, "a:100 .pad/1:16284(padding) d/b:40000 c:9152",
		[]fixture.File{{Path: []string{"a"}, Length: 100}, {Path: []string{".pad", "1"}, Length: 16284, Padding: true}, {Path: []string{"d", "b"}, Length: 40000}, {Path: []string{"c"}, Length: 9152}})
	// real data followed, in the same fetch, by a padding file larger than a block (and than one read)
	// (a body longer than the writer's 32 KiB buffer, so that the buffer is full of
	// earlier file data when the padding's zeros are read into it)
	h.multiFileLayout(t, mode, chunk, 65536, "64 KiB pieces: a:40000 .pad/2:25536(padding) b:65536",
		[]fixture.File{{Path: []string{"a"}, Length: 40000}, {Path: []string{".pad", "2"}, Length: 25536, Padding: true}, {Path: []string{"b"}, Length: 65536}})
}

func (h *c14) multiFileLayout(t *testing.T, mode string, chunk int, psize int, layoutDesc string, files []fixture.File) {
	bpp := psize / 16384 // blocks per piece (the layouts fill two whole pieces)
	h.res.Add("evaluations", 1)
	synctest.Test(t, func(t *testing.T) {
		peer.VerifReset()
		config.DefaultUseWebseeds = true
		config.PrefetchRate = 768 * 1024
		meta, truth := fixture.Metainfo("mf", files, psize, nil)
		tor, err := ReadTorrent("", bytes.NewReader(meta))
		if err != nil {
			panic(err)
		}
		tor.Log = discardLog
		tor.Event = make(chan peer.TorEvent, 4096)
		tor.Done = make(chan struct{})
		tor.Deleted = make(chan struct{})
		tor.rand = rand.New(rand.NewPCG(1, 2))
		tor.useWebseeds = true
		srv := &seedServer{mode: mode, chunk: chunk, files: map[string][]byte{}}
		var off int64
		for _, f := range files {
			srv.files["/f/mf/"+strings.Join(f.Path, "/")] = truth[off : off+f.Length]
			off += f.Length
		}
		httpclient.VerifInstall("", "", srv)
		ws := webseed.New("http://seed.example/f", true)
		tor.webseeds = []webseed.Webseed{ws}
		ctx := context.Background()
		where := fmt.Sprintf("[multi-file layout %s, server %s, body chunking %d]", layoutDesc, mode, chunk)
		firstRound := map[uint32]int{}
		for piece := uint32(0); piece < 2; piece++ {
			for round := 0; round < 3; round++ {
				maybeWebseed(ctx, tor, piece, false)
				synctest.Wait()
				time.Sleep(40 * time.Second)
				synctest.Wait()
				for {
					select {
					case e := <-tor.Event:
						if d, ok := e.(peer.TorData); ok {
							d.Complete = false
							e = d
						}
						handleEvent(ctx, tor, e)
						continue
					default:
					}
					break
				}
				if round == 0 {
					_, bm := tor.Pieces.PieceBitmap(piece)
					firstRound[piece] = bm.Count()
				}
				for c, v := range tor.inFlight {
					if v != 0 {
						h.viol("C14/reservation-not-released", "block %d is still marked in flight (%d) after a fetch for piece %d ended %s", c, v, piece, where)
						tor.Pieces.Del()
						return
					}
				}
			}
		}
		srv.mu.Lock()
		reqs := append([]string{}, srv.requests...)
		srv.mu.Unlock()
		for _, r := range reqs {
			u, rg, _ := strings.Cut(r, " ")
			pth := strings.TrimPrefix(u, "http://seed.example")
			f, ok := srv.files[pth]
			if !ok || strings.Contains(pth, ".pad") {
				h.viol("C14/multifile-wrong-url", "the fetch asked for %q, which is not a (non-padding) file of the torrent %s", u, where)
				continue
			}
			var a, b int64
			if n, _ := fmt.Sscanf(rg, "bytes=%d-%d", &a, &b); n != 2 || a > b || b >= int64(len(f)) {
				h.viol("C14/multifile-wrong-range", "the fetch asked for %q of %q, a file of %d bytes %s", rg, pth, len(f), where)
			}
		}
		// whatever was stored is the true content, at the right place
		for piece := uint32(0); piece < 2; piece++ {
			s := int64(piece) * int64(psize)
			_, bm := tor.Pieces.PieceBitmap(piece)
			stored := bm.Count()
			tor.Pieces.AddData(piece, 0, append([]byte{}, truth[s:s+int64(psize)]...), ^uint32(0))
			if done, _, err := tor.Pieces.Finalise(piece, tor.PieceHashes[piece]); !done && mode != "body-garbage" {
				h.viol("C14/multifile-stored-wrong-bytes", "piece %d: after completing it with true data its hash does not match: the fetch stored wrong or misplaced bytes (%v; %d blocks had been stored) %s", piece, err, stored, where)
			}
			if mode == "honoured" && firstRound[piece] != bpp {
				h.viol("C14/multifile-drops-delivered-data", "an honest server delivered the whole of piece %d in the first fetch, %d of %d blocks were stored by it %s", piece, firstRound[piece], bpp, where)
			}
			if mode == "honoured" && stored != bpp {
				h.viol("C14/multifile-incomplete", "an honest server was asked for piece %d three times and only %d of %d blocks were stored %s", piece, stored, bpp, where)
			}
		}
		tor.Pieces.Del()
		h.nontriv[fmt.Sprintf("mf/%d/%s/%d/%d", psize, mode, chunk, len(reqs))] = true
	})
}

// bigFetches: ten successive fetches into 4 MiB pieces from an honest server;
// the measured rate grows from fetch to fetch and with it the cap on the fetch
// length.  After each fetch every reservation must be released.
func (h *c14) bigFetches(t *testing.T) {
	synctest.Test(t, func(t *testing.T) {
		peer.VerifReset()
		config.DefaultUseWebseeds = true
		config.PrefetchRate = 768 * 1024
		w := newWriterWorld("gbig")
		tor := w.t
		tor.useWebseeds = true
		// each read of the body takes 70 ms of virtual time, so that the rate
		// estimator decays and the cap is not a round number
		srv := &seedServer{mode: "honoured", truth: w.truth, chunk: 200000, delay: 70 * time.Millisecond}
		httpclient.VerifInstall("", "", srv)
		ws := webseed.New("http://seed.example/f", true)
		tor.webseeds = []webseed.Webseed{ws}
		for round := 0; round < 10; round++ {
			h.res.Add("evaluations", 1)
			piece := uint32(round / 5)
			maybeWebseed(w.ctx, tor, piece, false)
			synctest.Wait()
			time.Sleep(20 * time.Second)
			synctest.Wait()
			for {
				select {
				case e := <-tor.Event:
					if d, ok := e.(peer.TorData); ok {
						d.Complete = false
						e = d
					}
					handleEvent(w.ctx, tor, e)
					continue
				default:
				}
				break
			}
			for c, v := range tor.inFlight {
				if v != 0 {
					h.viol("C14/reservation-not-released", "block %d is still marked in flight (%d) after fetch %d into a 4 MiB piece ended (web-seed rate %.0f B/s, last request %q)", c, v, round+1, ws.Rate(), srv.requests[len(srv.requests)-1])
					tor.Pieces.Del()
					return
				}
			}
			h.nontriv[fmt.Sprintf("big/%d/%d", round, int(ws.Rate())/100000)] = true
		}
		tor.Pieces.Del()
	})
}

func TestVerifC14(t *testing.T) {
	if os.Getenv("VERIF_OUT") == "" {
		t.Skip("verif harness: run through /verif/run")
	}
	httpclient.VerifStartExpiry()
	res := vh.NewResult("C14")
	h := &c14{res: res, nontriv: map[string]bool{}}
	defer func() {
		res.Add("distinct_nontrivial", int64(len(h.nontriv)))
		if err := res.Write(); err != nil {
			t.Error(err)
		}
	}()
	work := 0
	mine := func() bool { work++; return vh.Mine(work) }
	// (a) file tables
	lens := []int64{0, 1, 100, 16383, 16384, 16385, 40000}
	maxFiles := 3
	if vh.Thorough() {
		maxFiles = 4
	}
	var rec func(files []fixture.File)
	rec = func(files []fixture.File) {
		if len(files) > 0 {
			if len(files) >= 2 && !mine() {
				if len(files) == 2 {
					return
				}
			} else {
				h.chunksCase(files, 32768)
				res.Add("file_tables", 1)
			}
		}
		if len(files) == maxFiles {
			return
		}
		for _, l := range lens {
			for _, p := range []bool{false, true} {
				nf := append(append([]fixture.File{}, files...), fixture.File{Path: []string{fmt.Sprintf("f%d", len(files))}, Length: l, Padding: p})
				if len(nf) == 2 {
					// shard on the first two files
					work++
					if !vh.Mine(work) {
						continue
					}
				}
				rec2(h, res, nf, maxFiles, lens)
			}
		}
	}
	_ = rec
	rec2(h, res, nil, maxFiles, lens)
	// torrents beyond 4 GiB: piece index x piece size no longer fits 32 bits
	h.chunksHuge(mine)
	if vh.Mine(0) {
		h.chunksCase([]fixture.File{{Length: 81921}}, 32768) // single-file
		res.Sample(map[string]any{"file table": "f0:100 f1:16284(pad) f2:40000", "range": "piece 0, offset 0, length 32768"})
	}
	// (b) the writer under every split
	type rng struct {
		geom        string
		idx, off, l uint32
	}
	ranges := []rng{{"gtail", 0, 0, wchunk}, {"gtail", 0, 0, 2 * wchunk}, {"gtail", 0, wchunk, wchunk}, {"gtail", 2, 0, wchunk + 1}, {"gtail", 2, wchunk, 1}, {"gshort", 2, 0, 100}, {"g2x2", 1, 0, 2 * wchunk}}
	for _, r := range ranges {
		g := wgeoms[r.geom]
		truth := newWriterWorld(r.geom).truth
		s := int64(r.idx)*int64(g.PSize) + int64(r.off)
		exact := truth[s : s+int64(r.l)]
		bodies := map[string][]byte{"exact": exact, "truncated": exact[:len(exact)/2], "overlong": append(append([]byte{}, exact...), bytes.Repeat([]byte{0xEE}, 20000)...), "empty": nil,
			"one-short": exact[:len(exact)-1]}
		// fixed order: the shards are separate processes and must agree on the cell a counter value names
		for _, bn := range []string{"exact", "truncated", "overlong", "empty", "one-short"} {
			body := bodies[bn]
			for _, mode := range []string{"write", "readfrom", "copy"} {
				if !mine() {
					continue
				}
				if vh.Expired() {
					res.NotExhaustive("deadline in the writer sweep")
					return
				}
				h.runWriter(r.geom, r.idx, r.off, r.l, body, mode, nil, false, -1)
				h.runWriter(r.geom, r.idx, r.off, r.l, body, mode, []int{1, 1, 1, 1, 1, 1, 1, 1}, false, -1)
				for _, sz := range []int{1, 1000, 16383, 16384, 16385, 32768, 40000} {
					segs := make([]int, 0, 64)
					for k := 0; k < 64; k++ {
						segs = append(segs, sz)
					}
					if sz == 1 && len(body) > 20000 && !vh.Thorough() {
						continue
					}
					if sz == 1 {
						segs = make([]int, len(body)+1)
						for k := range segs {
							segs[k] = 1
						}
					}
					h.runWriter(r.geom, r.idx, r.off, r.l, body, mode, segs, false, -1)
				}
				// every single cut (and, for short ranges, pairs around block boundaries)
				step := 1
				if len(body) > 20000 && !vh.Thorough() {
					step = 97
				}
				for k := 1; k < len(body); k += step {
					h.runWriter(r.geom, r.idx, r.off, r.l, body, mode, []int{k}, false, -1)
				}
				for _, k := range []int{1, 16383, 16384, 16385} {
					for _, k2 := range []int{1, 16383, 16384, 16385, 100} {
						if k+k2 < len(body) {
							h.runWriter(r.geom, r.idx, r.off, r.l, body, mode, []int{k, k2}, false, -1)
						}
					}
				}
				if mode == "copy" {
					// several consecutive copies into one writer (a fetch spanning files),
					// with and without the last read of each part returning data+EOF
					for _, parts := range [][]int{{100}, {16384}, {100, 16284}, {16383, 1}, {1, 16383, 16384}, {16385}, {100, 16284, 100}, {20000}, {16384, 16384}} {
						for _, eofData := range []bool{false, true} {
							h.runWriter(r.geom, r.idx, r.off, r.l, body, "multi", parts, eofData, -1)
						}
					}
				}
				if mode != "write" {
					h.runWriter(r.geom, r.idx, r.off, r.l, body, mode, []int{100, 16384}, true, -1)
					for _, e := range []int{0, 1, 16383, 16384, 16385, len(body) - 1} {
						if e >= 0 && e <= len(body) {
							h.runWriter(r.geom, r.idx, r.off, r.l, body, mode, []int{5000}, false, e)
						}
					}
				}
				_ = bn
			}
		}
	}
	res.Sample(map[string]any{"writer": "piece 2 offset 0 length 16385 (gtail)", "body": "exact", "mode": "readfrom", "cuts": []int{16383, 2}})
	// (c) end to end
	for _, mode := range seedModes {
		for _, hoff := range []bool{false, true} {
			for _, pc := range []uint32{0, 2} {
				if !mine() {
					continue
				}
				for _, pre := range [][]uint32{nil, {0}, {1}} {
					if pc == 2 && len(pre) > 0 && pre[0] == 1 {
						continue
					}
					for _, chunk := range []int{1 << 20, 1000, 16384} {
						h.endToEnd(t, mode, hoff, pc, pre, chunk)
					}
				}
			}
		}
	}
	for _, mode := range []string{"honoured", "body-short", "body-long", "404", "shorter-range", "body-fails-mid", "200-full", "star-total"} {
		if !mine() {
			continue
		}
		for _, chunk := range []int{1 << 20, 1000, 16384, 100} {
			h.multiFile(t, mode, chunk, false)
		}
	}
	// holes larger than 1 MiB: the length of a fetch is capped according to the
	// web seed's measured rate; successive fetches on 4 MiB pieces
	if mine() {
		h.bigFetches(t)
	}
	res.Sample(map[string]any{"server": "body-long", "piece": 2, "blocks present": []int{0}})
}

// rec2 enumerates file tables; sharded on the first two files.
func rec2(h *c14, res *vh.Result, files []fixture.File, maxFiles int, lens []int64) {
	if len(files) > 0 {
		h.chunksCase(files, 32768)
		res.Add("file_tables", 1)
	}
	if len(files) == maxFiles {
		return
	}
	for li, l := range lens {
		for pi, p := range []bool{false, true} {
			if len(files) == 1 && !vh.Mine(li*2+pi+len(lens)*int(files[0].Length%7)) {
				continue
			}
			nf := append(append([]fixture.File{}, files...), fixture.File{Path: []string{fmt.Sprintf("f%d", len(files))}, Length: l, Padding: p})
			rec2(h, res, nf, maxFiles, lens)
		}
	}
}
