package tor

// C10 (foundation): the torrent's table of requested pieces.  Every sequence of
// operations up to a depth over two pieces and the priorities {1, 0, idle} is
// executed on the real Requested and on a reference model (per piece: a
// multiset of consumer priorities, whether an entry exists, the completion
// channels handed out and whether each must be closed by now).

import (
	"fmt"
	"os"
	"sort"
	"strings"
	"testing"

	"github.com/jech/storrent/zzverif/vh"
)

type mchan struct {
	ch     <-chan struct{}
	piece  uint32
	closed bool // must be closed: the piece completed, or its entry was deleted, since the channel was handed out
}

func TestVerifRequested(t *testing.T) {
	if os.Getenv("VERIF_OUT") == "" && vh.ReplayFile() == "" {
		t.Skip("verif harness: run through /verif/run")
	}
	res := vh.NewResult("C10")
	res.FileOffset = 300
	nontriv := map[string]bool{}
	defer func() {
		res.Add("distinct_outcomes", int64(len(nontriv)))
		vh.ClearCheckpoint("C10")
		if err := res.Write(); err != nil {
			t.Error(err)
		}
	}()
	var ops []string
	for p := 0; p < 2; p++ {
		for _, pr := range []string{"1", "0", "idle"} {
			ops = append(ops, fmt.Sprintf("add:%d:%s:0", p, pr), fmt.Sprintf("add:%d:%s:1", p, pr))
			if pr != "idle" {
				ops = append(ops, fmt.Sprintf("del:%d:%s", p, pr))
			}
		}
		ops = append(ops, fmt.Sprintf("done:%d", p), fmt.Sprintf("delidlepiece:%d", p))
	}
	ops = append(ops, "delidle")
	depth := 5
	if vh.Thorough() {
		depth = 6
	}
	prioOf := func(s string) int8 {
		switch s {
		case "1":
			return 1
		case "0":
			return 0
		}
		return IdlePriority
	}
	run := func(seq []string) {
		res.Add("request_table_histories", 1)
		res.Add("states", int64(len(seq)))
		res.Add("transitions", int64(len(seq)))
		res.Add("traces_validated_against_impl", 1)
		rp := map[string]any{"ops": seq}
		viol := func(key, format string, a ...any) {
			if !res.HasViolation(key) {
				res.Violate(key, fmt.Sprintf(format, a...)+fmt.Sprintf("  [table of requested pieces, operations %v]", seq), rp)
			}
		}
		rs := Requested{pieces: make(map[uint32]*RequestedPiece)}
		prios := map[uint32][]int8{}
		exists := map[uint32]bool{}
		var chans []*mchan
		drop := func(p uint32) { // the entry is deleted: whoever waits is released (abandonment)
			exists[p] = false
			prios[p] = nil
			for _, c := range chans {
				if c.piece == p {
					c.closed = true
				}
			}
		}
		var trace []string
		for _, op := range seq {
			f := strings.Split(op, ":")
			var p uint32
			if len(f) > 1 {
				fmt.Sscanf(f[1], "%d", &p)
			}
			var got, want string
			var pan any
			func() {
				defer func() { pan = recover() }()
				switch f[0] {
				case "add":
					pr := prioOf(f[2])
					ch, added := rs.Add(p, pr, f[3] == "1")
					wadded := !exists[p] || pr > IdlePriority
					exists[p] = true
					if pr > IdlePriority {
						prios[p] = append(prios[p], pr)
					}
					got, want = fmt.Sprint(added), fmt.Sprint(wadded)
					if f[3] == "1" && ch == nil {
						got += " nil-channel"
					}
					if ch != nil {
						known := false
						for _, c := range chans {
							if c.ch == ch && !c.closed {
								known = true
							}
						}
						if !known {
							chans = append(chans, &mchan{ch: ch, piece: p})
						}
					}
				case "del":
					pr := prioOf(f[2])
					r := rs.Del(p, pr)
					wr := false
					for k, q := range prios[p] {
						if q == pr {
							prios[p] = append(prios[p][:k], prios[p][k+1:]...)
							if len(prios[p]) == 0 {
								wr = true
								drop(p)
							}
							break
						}
					}
					got, want = fmt.Sprint(r), fmt.Sprint(wr)
				case "done":
					rs.Done(p)
					if exists[p] {
						for _, c := range chans {
							if c.piece == p {
								c.closed = true
							}
						}
						if len(prios[p]) == 0 {
							drop(p)
						}
					}
				case "delidlepiece":
					rs.DelIdlePiece(p)
					if exists[p] && len(prios[p]) == 0 {
						drop(p)
					}
				case "delidle":
					rs.DelIdle()
					for q := uint32(0); q < 2; q++ {
						if exists[q] && len(prios[q]) == 0 {
							drop(q)
						}
					}
				}
			}()
			trace = append(trace, got)
			if pan != nil {
				viol("C10/requested/panic", "%s panicked: %v", op, pan)
				return
			}
			if got != want {
				viol("C10/requested/result/"+f[0], "%s returned %s, the reference model says %s", op, got, want)
				return
			}
			for q := uint32(0); q < 2; q++ {
				r := rs.pieces[q]
				if (r != nil) != exists[q] {
					viol("C10/requested/entry", "after %s piece %d has an entry: %v; the model says %v", op, q, r != nil, exists[q])
					return
				}
				if r != nil {
					a := append([]int8{}, r.prio...)
					b := append([]int8{}, prios[q]...)
					sort.Slice(a, func(i, j int) bool { return a[i] < a[j] })
					sort.Slice(b, func(i, j int) bool { return b[i] < b[j] })
					if fmt.Sprint(a) != fmt.Sprint(b) {
						viol("C10/requested/priorities", "after %s piece %d is registered at priorities %v, the consumers' registrations are %v: a withdrawal must remove exactly one registration", op, q, a, b)
						return
					}
				}
			}
			for _, c := range chans {
				closed := false
				select {
				case <-c.ch:
					closed = true
				default:
				}
				if closed != c.closed {
					viol("C10/requested/channel", "after %s a completion channel for piece %d is closed=%v; it must be %v (closed exactly when the piece completed or its last registration went away since it was handed out)", op, c.piece, closed, c.closed)
					return
				}
			}
		}
		nontriv[strings.Join(trace, ",")] = true
	}
	if vh.ReplayFile() != "" {
		var rp struct {
			Ops []string `json:"ops"`
		}
		if err := vh.LoadReplay(&rp); err != nil {
			t.Fatal(err)
		}
		run(rp.Ops)
		for _, v := range res.Violations {
			fmt.Printf("RESULT: violation %s: %s\n", v.Key, v.Message)
		}
		if len(res.Violations) == 0 {
			fmt.Println("RESULT: property held on this history")
		}
		return
	}
	work, ran := 0, 0
	expired := false
	defer func() {
		if expired {
			res.NotExhaustive("deadline in the operation-sequence enumeration")
		}
	}()
	var seq []string
	var rec func()
	rec = func() {
		if len(seq) == depth {
			work++
			if vh.Mine(work) {
				ran++
				if ran%4096 == 0 && vh.Expired() {
					expired = true
				}
				if !expired {
					run(seq)
				}
			}
			return
		}
		for _, o := range ops {
			seq = append(seq, o)
			rec()
			seq = seq[:len(seq)-1]
		}
	}
	rec()
	res.Sample(map[string]any{"ops": []string{"add:0:1:1", "add:0:1:0", "del:0:1", "done:0", "del:0:1"}})
}
