package tor

// C05: no message sequence from a remote peer can crash or bloat the client.
// Hostile (well-framed) messages with boundary field values are injected into
// real peers in every capability / metadata state; every event they give rise
// to is fed to the real tor.handleEvent.

import (
	"bytes"
	"fmt"
	"net/netip"
	"runtime/metrics"
	"testing"

	rc "github.com/jech/storrent/zzverif/refcodec"
)

var allocSampleT = []metrics.Sample{{Name: "/gc/heap/allocs:bytes"}}

func allocNowT() uint64 {
	metrics.Read(allocSampleT)
	return allocSampleT[0].Value.Uint64()
}

func hexFrame(m rc.Msg) string {
	return fmt.Sprintf("%x", rc.Encode(m, rc.EncodeOpts{OmitZero: true}))
}

// hostileAlphabet returns "raw:<remote>:<hex>" transitions for remote r.
func hostileAlphabet(r int, n uint32, psize uint32, small bool) []string {
	var out []string
	add := func(m rc.Msg) { out = append(out, fmt.Sprintf("raw:%d:%s", r, hexFrame(m))) }
	addRaw := func(b []byte) { out = append(out, fmt.Sprintf("raw:%d:%x", r, b)) }
	V := []uint32{0, n - 1, n, n + 1, 8, 1 << 22, 1<<32 - 1}
	if small {
		V = []uint32{0, n, 1 << 22}
	}
	for _, v := range V {
		if v == 1<<32-1 {
			// the full 32-bit extreme is exercised by the single-process "big" job only
			continue
		}
		add(rc.Msg{Kind: rc.Have, Index: v})
		add(rc.Msg{Kind: rc.AllowedFast, Index: v})
		add(rc.Msg{Kind: rc.ExtDontHave, ID: 3, Index: v})
		if !small {
			add(rc.Msg{Kind: rc.Suggest, Index: v})
		}
	}
	nb := int(n+7) / 8
	ones := bytes.Repeat([]byte{0xFF}, nb)
	add(rc.Msg{Kind: rc.Bitfield, Data: nil})
	add(rc.Msg{Kind: rc.Bitfield, Data: maskBytes((1<<n)-1, int(n))})
	add(rc.Msg{Kind: rc.Bitfield, Data: ones})
	add(rc.Msg{Kind: rc.Bitfield, Data: append(append([]byte{}, ones...), 0x80)})
	add(rc.Msg{Kind: rc.Bitfield, Data: bytes.Repeat([]byte{0xFF}, 4096)})
	for _, k := range []string{rc.Choke, rc.Unchoke, rc.Interested, rc.NotInterested, rc.HaveAll, rc.HaveNone, rc.KeepAlive} {
		add(rc.Msg{Kind: k})
	}
	add(rc.Msg{Kind: rc.Port, Port: 0})
	add(rc.Msg{Kind: rc.Port, Port: 6881})
	type trip struct{ i, b, l uint32 }
	trips := []trip{{0, 0, 16384}, {0, 0, 0}, {0, 1, 16384}, {0, psize, 16384}, {n, 0, 16384}, {1<<32 - 1, 0, 16384}, {0, 0, 1 << 17}, {0, 0, 1<<32 - 1}, {0, 1<<32 - 16384, 16384}, {n - 1, 0, 16384}}
	if small {
		trips = trips[:5]
	}
	for _, t := range trips {
		add(rc.Msg{Kind: rc.Request, Index: t.i, Begin: t.b, Length: t.l})
		add(rc.Msg{Kind: rc.Cancel, Index: t.i, Begin: t.b, Length: t.l})
		add(rc.Msg{Kind: rc.Reject, Index: t.i, Begin: t.b, Length: t.l})
	}
	for _, i := range []uint32{0, 1, n - 1, n, 1<<32 - 1} {
		for _, b := range []uint32{0, 1, 16384, psize, 1<<32 - 16384} {
			for _, l := range []int{0, 1, 16384, 16385, 32768} {
				if small && (l == 1 || l == 16385 || b == 1) {
					continue
				}
				add(rc.Msg{Kind: rc.Piece, Index: i, Begin: b, Data: bytes.Repeat([]byte{0x5A}, l)})
			}
		}
	}
	// extended handshakes
	for _, mm := range []map[string]uint8{nil, {"ut_metadata": 2, "ut_pex": 1, "lt_donthave": 3}, {"ut_metadata": 0, "ut_pex": 255}} {
		for _, reqq := range []uint32{0, 1, 1<<32 - 1} {
			for _, ms := range []uint32{0, 1, 40000, 1 << 23, 1<<27 + 1, 1<<32 - 1} {
				if small && (reqq == 1 || ms == 1 || ms == 1<<27+1) {
					continue
				}
				add(rc.Msg{Kind: rc.Ext0, M: mm, HasM: mm != nil, ReqQ: reqq, MetadataSize: ms, ExtPort: 6881, Version: "x",
					IPv4: netip.MustParseAddr("10.0.0.1"), IPv6: netip.MustParseAddr("2001::7")})
			}
		}
	}
	addRaw(append([]byte{0, 0, 0, 17, 20, 0}, "d4:ipv43:abce"...))
	addRaw(append([]byte{0, 0, 0, 22, 20, 0}, "d11:upload_only1:1e"...)[:4+22])
	// metadata messages (storrent's receive id for ut_metadata is 2)
	for _, tp := range []uint8{0, 1, 2, 3, 255} {
		for _, pc := range []uint32{0, 1, 2, 3, 1<<32 - 1} {
			for _, ts := range []uint32{0, 40000, 16384, 1<<32 - 1} {
				for _, l := range []int{0, 1, 7232, 16384} {
					if small && (pc == 3 || ts == 16384 || l == 1 || tp == 255) {
						continue
					}
					if tp != 1 && l != 0 {
						continue
					}
					add(rc.Msg{Kind: rc.ExtMetadata, ID: 2, MsgType: tp, MPiece: pc, TotalSize: ts, HasTotal: ts != 0, Data: bytes.Repeat([]byte{0x4D}, l)})
				}
			}
		}
	}
	// peer exchange (id 1)
	p4 := func(k int) []rc.Peer {
		var l []rc.Peer
		for i := 0; i < k; i++ {
			l = append(l, rc.Peer{Addr: netip.AddrPortFrom(netip.AddrFrom4([4]byte{9, 9, byte(i >> 8), byte(i)}), uint16(1000+i)), Flags: byte(i)})
		}
		return l
	}
	add(rc.Msg{Kind: rc.ExtPex, ID: 1})
	add(rc.Msg{Kind: rc.ExtPex, ID: 1, Added: p4(1)})
	add(rc.Msg{Kind: rc.ExtPex, ID: 1, Added: p4(1000)})
	add(rc.Msg{Kind: rc.ExtPex, ID: 1, Added: append(p4(2), p4(2)...), Dropped: p4(3)})
	add(rc.Msg{Kind: rc.ExtPex, ID: 1, Dropped: p4(5)})
	addRaw(append([]byte{0, 0, 0, 18, 20, 1}, "d5:added5:abcdee"...))
	add(rc.Msg{Kind: rc.ExtUploadOnly, ID: 4, Value: true})
	add(rc.Msg{Kind: rc.ExtOther, ID: 77, Data: []byte("zz")})
	add(rc.Msg{Kind: rc.Other, ID: 99, Data: []byte("zz")})
	return out
}

func c05Specs() []*bfsSpec {
	var specs []*bfsSpec
	for caps := 0; caps < 4; caps++ {
		pc := peerCfg{Fast: caps&1 != 0, Ext: caps&2 != 0, DontHave: 7, Pex: 9, Metadata: 8, ReqQ: 2}
		honest := peerCfg{Fast: true, Ext: true, DontHave: 7, Pex: 9, Metadata: 8}
		torrentSide := []string{"tick", "want:0:1", "unwant:1:1", "adv:2", "utick", "mtick"}
		// metadata known
		// (the last setup leaves requests both on the wire and queued unsent inside the peer)
		for si, setup := range [][]string{nil, {"bf:0:7", "unchoke:0", "want:2:1", "tick"}, {"interested:0", "unchokepeer:0", "req:0:0:0:16384"},
			{"bf:0:7", "unchoke:0", "want:1:1", "want:2:0", "cmd:0:2", "cmd:0:3", "cmd:0:4", "cmd:0:5"}} {
			cfg := worldCfg{Geom: "gtail", Peers: []peerCfg{pc, honest}, Have: []int{0}, AutoDrain: true}
			specs = append(specs, &bfsSpec{Name: fmt.Sprintf("c05-known-caps%d-s%d", caps, si), Cfg: cfg, Setup: setup,
				Alphabet: append(hostileAlphabet(0, 3, 2*wchunk, false), torrentSide...), Depth: 2, DepthT: 3})
		}
		// magnet: metadata unknown; the honest peer has announced the true size
		if caps&2 != 0 || caps == 0 {
			cfg := worldCfg{Geom: "gtail", Peers: []peerCfg{pc, honest}, Magnet: true, AutoDrain: true, InfoSize: 40000}
			specs = append(specs, &bfsSpec{Name: fmt.Sprintf("c05-magnet-caps%d", caps), Cfg: cfg,
				Alphabet: append(hostileAlphabet(0, 3, 2*wchunk, false), torrentSide...), Depth: 2, DepthT: 3})
			voter := honest
			voter.MetadataSize = 40000
			cfg2 := cfg
			// two honest voters: a single hostile vote cannot tie with the true size
			// (a tie makes the guess follow Go's map iteration order)
			cfg2.Peers = []peerCfg{pc, voter, voter}
			specs = append(specs, &bfsSpec{Name: fmt.Sprintf("c05-magnet-voted-caps%d", caps), Cfg: cfg2,
				Setup:    []string{"mtick"},
				Alphabet: append(hostileAlphabet(0, 3, 2*wchunk, true), torrentSide...), Depth: 2, DepthT: 3})
		}
	}
	// a nearly full event queue: a peer that is torn down (by its remote, or by a
	// message it refuses) while the torrent has not yet taken its earlier events
	// must not be able to wedge the loop's blocking exchanges with it
	{
		hostile := peerCfg{Fast: true, Ext: true, DontHave: 7, Pex: 9, Metadata: 8}
		honest := peerCfg{Fast: true, Ext: true, DontHave: 7, Pex: 9, Metadata: 8}
		bad := func(m rc.Msg) string { return fmt.Sprintf("raw:0:%s", hexFrame(m)) }
		for _, ecap := range []int{1, 2} {
			cfg := worldCfg{Geom: "gtail", Peers: []peerCfg{hostile, honest}, Have: []int{0}, EventCap: ecap}
			specs = append(specs, &bfsSpec{Name: fmt.Sprintf("c05-smallqueue-%d", ecap), Cfg: cfg,
				Alphabet: []string{"bf:0:7", "have:0:1", "close:0", "stall:0", bad(rc.Msg{Kind: rc.Bitfield, Data: bytes.Repeat([]byte{0xFF}, 4096)}), bad(rc.Msg{Kind: rc.Piece, Index: 0, Begin: 0, Data: bytes.Repeat([]byte{0x5A}, 16384)}),
					"interested:0", "interested:1", "unchoke:0", "utick", "tick", "ev", "drain", "want:1:1", "addpeer:3", "adv:2"},
				Depth: 4, DepthT: 5})
		}
	}
	// metadata size guesses that grow and shrink while blocks arrive: a peer
	// votes once (a second extended handshake disconnects it), so the guess
	// moves as further peers vote
	{
		silent := peerCfg{Fast: true, Ext: true, NoExt0: true}
		ext0 := func(r int, ms uint32) string {
			return fmt.Sprintf("raw:%d:%s", r, hexFrame(rc.Msg{Kind: rc.Ext0, M: map[string]uint8{"ut_metadata": 2}, HasM: true, MetadataSize: ms}))
		}
		var al []string
		for r := 1; r <= 3; r++ {
			for _, ms := range []uint32{20000, 100000} {
				al = append(al, ext0(r, ms))
			}
		}
		for _, pc := range []uint32{0, 1, 2, 3, 6} {
			for _, ts := range []uint32{20000, 100000, 0} { // 0: no total_size key
				for _, l := range []int{16384, 3616} {
					al = append(al, fmt.Sprintf("raw:0:%s", hexFrame(rc.Msg{Kind: rc.ExtMetadata, ID: 2, MsgType: 1, MPiece: pc, TotalSize: ts, HasTotal: ts != 0, Data: bytes.Repeat([]byte{0x4D}, l)})))
				}
			}
		}
		al = append(al, "mtick")
		cfg := worldCfg{Geom: "gtail", Peers: []peerCfg{silent, silent, silent, silent}, Magnet: true, AutoDrain: true, InfoSize: 40000}
		specs = append(specs, &bfsSpec{BothMapOrders: true, Name: "c05-magnet-resize", Cfg: cfg, Setup: []string{ext0(0, 100000)}, Alphabet: al, Depth: 3, DepthT: 4})
		specs = append(specs, &bfsSpec{BothMapOrders: true, Name: "c05-magnet-resize-small-first", Cfg: cfg, Setup: []string{ext0(0, 20000)}, Alphabet: al, Depth: 3, DepthT: 4})
	}
	return specs
}

func TestVerifC05(t *testing.T) { runSpecs(t, "C05", c05Specs()) }
