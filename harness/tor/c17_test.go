package tor

// C17: torrent lifecycle — no call hangs, deletion is complete.  The real
// AddTorrent / run() loop runs inside a bubble.  The loop is parked inside a
// handler (a TorGetStats whose reply nobody reads yet), the queue is then
// loaded in a chosen order with API calls and a stop cause, and the loop is
// released: commands ahead of the stop are answered, commands behind it are
// never handled.  Every caller must return; after the loop has exited the
// torrent must be gone completely.

import (
	"runtime"
	"context"
	"errors"
	"fmt"
	"io"
	"net"
	"net/netip"
	"os"
	"strings"
	"testing"
	"testing/synctest"
	"time"

	"github.com/jech/storrent/alloc"
	"github.com/jech/storrent/config"
	"github.com/jech/storrent/hash"
	"github.com/jech/storrent/known"
	"github.com/jech/storrent/peer"
	"github.com/jech/storrent/protocol"
	"github.com/jech/storrent/zzverif/vh"
	"github.com/jech/storrent/zzverif/vrand"
)

type lifeOp struct {
	name string
	run  func(s *lifeScenario) string
}

type lifeCfg struct {
	Ops      []string `json:"ops"`      // API calls, in queue order
	StopAt   int      `json:"stop_at"`  // the stop cause sits before Ops[StopAt] (len(Ops) = after all)
	Cause    string   `json:"cause"`    // goaway | kill | cancel | error
	Peers    int      `json:"peers"`
	Reader   bool     `json:"reader"`
	FullQ    bool     `json:"full_queue"`
	// DyingPeers (with FullQ): the queue is filled with events whose handlers talk
	// to the peers, and the peers' connections are then closed by their remotes:
	// the peers are torn down while they cannot hand their last events over
	DyingPeers bool `json:"dying_peers,omitempty"`
	Dead     bool     `json:"already_dead"` // alpha scenarios: the loop has exited before the calls
}

func (c lifeCfg) String() string {
	dp := ""
	if c.DyingPeers {
		dp = " dying-peers"
	}
	return fmt.Sprintf("ops=%v stop=%s@%d peers=%d reader=%v fullq=%v dead=%v%s", c.Ops, c.Cause, c.StopAt, c.Peers, c.Reader, c.FullQ, c.Dead, dp)
}

type lifeScenario struct {
	t       *Torrent
	ctx     context.Context
	cancel  context.CancelFunc
	remotes []net.Conn
	reader  *Reader
	extra   []net.Conn
}

func lifeOps() map[string]lifeOp {
	addr := netip.MustParseAddrPort("12.0.0.9:7000")
	id := hash.Hash([]byte("-XX0001-abcdefghijkl"))
	e := func(err error) string {
		if err == nil {
			return "ok"
		}
		return "err:" + err.Error()
	}
	m := map[string]lifeOp{}
	add := func(name string, f func(s *lifeScenario) string) { m[name] = lifeOp{name, f} }
	add("GetStats", func(s *lifeScenario) string { _, err := s.t.GetStats(); return e(err) })
	add("GetAvailable", func(s *lifeScenario) string { _, err := s.t.GetAvailable(); return e(err) })
	add("DropPeer", func(s *lifeScenario) string { _, err := s.t.DropPeer(); return e(err) })
	add("GetPeer", func(s *lifeScenario) string { _, err := s.t.GetPeer(id); return e(err) })
	add("GetPeers", func(s *lifeScenario) string { _, err := s.t.GetPeers(); return e(err) })
	add("GetKnown", func(s *lifeScenario) string { _, err := s.t.GetKnown(id, addr); return e(err) })
	add("GetKnownByAddr", func(s *lifeScenario) string { _, err := s.t.GetKnown(nil, addr); return e(err) })
	add("GetKnowns", func(s *lifeScenario) string { _, err := s.t.GetKnowns(); return e(err) })
	add("GetConf", func(s *lifeScenario) string { _, err := s.t.GetConf(); return e(err) })
	add("SetConf", func(s *lifeScenario) string {
		return e(s.t.SetConf(peer.TorConf{DhtMode: config.DhtNone}))
	})
	add("Request", func(s *lifeScenario) string { _, _, err := s.t.Request(0, 1, true, false); return e(err) })
	add("RequestWant", func(s *lifeScenario) string { _, _, err := s.t.Request(1, 1, true, true); return e(err) })
	add("Unrequest", func(s *lifeScenario) string { _, _, err := s.t.Request(0, 1, false, false); return e(err) })
	add("Have", func(s *lifeScenario) string { return e(s.t.Have(0, true)) })
	add("BadPeer", func(s *lifeScenario) string { return e(s.t.BadPeer(1, true)) })
	add("AddKnown", func(s *lifeScenario) string { return e(s.t.AddKnown(addr, id, "v", known.Tracker)) })
	add("Announce", func(s *lifeScenario) string { return e(Announce(s.t.Hash, false)) })
	add("Kill", func(s *lifeScenario) string { return e(s.t.Kill(context.Background())) })
	add("NewPeer", func(s *lifeScenario) string {
		a, b := net.Pipe()
		s.extra = append(s.extra, b)
		err := s.t.NewPeer("", a, addr, false, protocol.HandshakeResult{Hash: s.t.Hash, Id: id}, nil)
		return e(err)
	})
	add("ReaderRead", func(s *lifeScenario) string {
		r := s.t.NewReader(s.ctx, 0, s.t.Pieces.Length())
		runtime.SetFinalizer(r, nil)
		_, err := r.Read(make([]byte, 100))
		r.Close()
		return e(err)
	})
	add("Expire", func(s *lifeScenario) string {
		// the global memory manager walks the torrent table and calls GetAvailable
		config.MemoryMark = 1
		defer func() { config.MemoryMark = 1 << 30 }()
		Expire()
		return "ok"
	})
	return m
}

type lifeOutcome struct {
	problems []problem
	results  []string
}

func runLife(t *testing.T, cfg lifeCfg) (out lifeOutcome) {
	prob := func(key, format string, a ...any) {
		out.problems = append(out.problems, problem{"C17", key, fmt.Sprintf(format, a...)})
	}
	defer func() {
		if p := recover(); p != nil {
			msg := fmt.Sprint(p)
			if strings.Contains(msg, "deadlock") || strings.Contains(msg, "blocked") {
				prob("C17/goroutines-left-blocked", "when the scenario ended some goroutine of the torrent was still blocked for ever: %s", firstLine(msg))
			} else {
				prob("C17/panic/"+firstLine(msg), "panic: %v", p)
			}
		}
	}()
	synctest.Test(t, func(t *testing.T) {
		ops := lifeOps()
		vrand.Fix(7)
		defer vrand.Unfix()
		g := wgeoms["g2x2"]
		w := &World{cfg: worldCfg{Geom: "g2x2"}, g: g}
		w.truth = make([]byte, g.Length)
		for i := range w.truth {
			w.truth[i] = wtruthByte(int64(i))
		}
		peer.VerifReset()
		config.MemoryMark = 1 << 30
		config.DefaultDhtMode = config.DhtNone
		config.DefaultUseTrackers = false
		config.DefaultUseWebseeds = false
		config.SetIdleRate(0)
		base := alloc.Bytes()
		info := buildInfo(g, w.truth, "life", 0)
		tt, err := ReadTorrent("", strings.NewReader(string(wrapInfo(info))))
		if err != nil {
			panic(err)
		}
		tt.Log = discardLog
		ctx, cancel := context.WithCancel(context.Background())
		s := &lifeScenario{ctx: ctx, cancel: cancel}
		// a verified piece, so that the torrent holds memory to give back
		tor, err := AddTorrent(ctx, tt)
		if err != nil {
			panic(err)
		}
		s.t = tor
		w.t = tor
		w.storePiece(0)
		synctest.Wait()
		for i := 0; i < cfg.Peers; i++ {
			a, b := net.Pipe()
			s.remotes = append(s.remotes, b)
			pid := hash.Hash([]byte(fmt.Sprintf("-RM0001-life%08d", i)))
			if err := tor.NewPeer("", a, netip.AddrPortFrom(netip.AddrFrom4([4]byte{13, 0, 0, byte(i + 1)}), uint16(7001+i)), false,
				protocol.HandshakeResult{Hash: tor.Hash, Id: pid, Fast: true, Extended: true}, nil); err != nil {
				panic(err)
			}
			go io.Copy(io.Discard, b)
			// the remote is interested: the torrent unchokes it, so that the
			// accounting of unchoked peers is at stake when everything stops
			go b.Write([]byte{0, 0, 0, 1, 2})
		}
		synctest.Wait()
		time.Sleep(time.Second)
		synctest.Wait()
		if cfg.Peers > 0 && peer.NumUnchoking() != cfg.Peers {
			// not a property: only makes the accounting clause below vacuous
			out.results = append(out.results, fmt.Sprintf("setup: %d of %d peers unchoked", peer.NumUnchoking(), cfg.Peers))
		}
		var readerDone chan error
		if cfg.Reader {
			s.reader = tor.NewReader(ctx, int64(g.PSize), 100) // piece 1: never arrives
			runtime.SetFinalizer(s.reader, nil)
			readerDone = make(chan error, 1)
			go func() {
				_, err := s.reader.Read(make([]byte, 10))
				readerDone <- err
			}()
			synctest.Wait()
		}
		stop := func() {
			switch cfg.Cause {
			case "goaway":
				go func() {
					select {
					case tor.Event <- peer.TorGoAway{}:
					case <-tor.Done:
					}
				}()
			case "kill":
				go tor.Kill(context.Background())
			case "cancel":
				cancel()
			}
			synctest.Wait()
		}
		var blocker chan *peer.TorStats
		if cfg.Dead {
			stop()
			time.Sleep(time.Second)
			synctest.Wait()
		} else {
			// park the loop inside a handler
			blocker = make(chan *peer.TorStats)
			tor.Event <- peer.TorGetStats{Ch: blocker}
			synctest.Wait()
			if cfg.FullQ {
				// the stop cause first, then fillers until the queue is full:
				// every later caller blocks in its send
				if !cfg.DyingPeers {
					stop()
				}
				for len(tor.Event) < cap(tor.Event) {
					if cfg.DyingPeers {
						tor.Event <- peer.TorPeerInterested{}
					} else {
						tor.Event <- peer.TorAnnounce{IPv6: false}
					}
				}
				if cfg.DyingPeers {
					for _, b := range s.remotes {
						b.Close()
					}
					synctest.Wait()
					time.Sleep(time.Second)
					synctest.Wait()
				}
			}
		}
		type call struct {
			name string
			done chan string
		}
		var calls []call
		for i, name := range cfg.Ops {
			if !cfg.Dead && !cfg.FullQ && i == cfg.StopAt {
				stop()
			}
			op, ok := ops[name]
			if !ok {
				panic("unknown op " + name)
			}
			c := call{name, make(chan string, 1)}
			calls = append(calls, c)
			go func() { c.done <- op.run(s) }()
			synctest.Wait()
		}
		if !cfg.Dead && !cfg.FullQ && cfg.StopAt >= len(cfg.Ops) {
			stop()
		}
		if cfg.DyingPeers && cfg.Cause != "none" {
			stop()
		}
		if blocker != nil {
			<-blocker // release the loop
		}
		synctest.Wait()
		// a generous amount of virtual time for everything to unwind
		for i := 0; i < 6; i++ {
			time.Sleep(4 * time.Hour)
			synctest.Wait()
		}
		loopExited := false
		select {
		case <-tor.Deleted:
			loopExited = true
		default:
		}
		for _, c := range calls {
			select {
			case r := <-c.done:
				out.results = append(out.results, c.name+"="+r)
				if loopExited && r != "ok" && !strings.Contains(r, ErrTorrentDead.Error()) && !strings.Contains(r, "context") && !strings.Contains(r, os.ErrNotExist.Error()) &&
					!strings.Contains(r, "closed") {
					// any error is acceptable; recorded for the outcome census only
				}
			default:
				state := "still running"
				if loopExited {
					state = "has exited"
				}
				prob("C17/call-hangs/"+c.name, "%s did not return within 24 virtual hours (the torrent's loop %s)  [%s]", c.name, state, cfg)
			}
		}
		if cfg.Cause != "none" && !loopExited {
			prob("C17/loop-did-not-exit", "the torrent's loop is still running 24 virtual hours after %s  [%s]", cfg.Cause, cfg)
		}
		if loopExited {
			if Get(tor.Hash) != nil {
				prob("C17/still-listed", "the torrent is still listed after its deletion completed")
			}
			for i, b := range s.remotes {
				b.SetReadDeadline(time.Now().Add(time.Second))
				_, err := b.Read(make([]byte, 1))
				for err == nil {
					_, err = b.Read(make([]byte, 4096))
				}
				if !errors.Is(err, io.EOF) && !errors.Is(err, io.ErrClosedPipe) {
					prob("C17/peer-connection-left-open", "peer connection %d is still open after the torrent was deleted (%v)", i, err)
				}
			}
			if readerDone != nil {
				select {
				case err := <-readerDone:
					if err == nil {
						prob("C17/reader-survives", "a blocked reader returned without error after the torrent was deleted")
					}
				default:
					prob("C17/reader-hangs", "a reader blocked in Read did not return after the torrent was deleted")
				}
				if _, err := s.reader.Read(make([]byte, 10)); err == nil {
					prob("C17/reader-survives", "a Read after deletion succeeded")
				}
			}
			if nu := peer.NumUnchoking(); nu != 0 {
				prob("C16/num-unchoking-after-delete", "NumUnchoking()=%d after the torrent was deleted and all its peers are gone", nu)
			}
			if d := alloc.Bytes() - base; d != 0 {
				prob("C17/memory-not-released", "%d bytes of piece memory are still allocated after the torrent was deleted", d)
			}
			if _, err := tor.GetStats(); !errors.Is(err, ErrTorrentDead) {
				prob("C17/dead-torrent-answers", "GetStats on a deleted torrent returned %v", err)
			}
		}
		// tidy up whatever may be left so that the bubble can end
		cancel()
		for _, b := range s.remotes {
			b.Close()
		}
		for _, b := range s.extra {
			b.Close()
		}
		if !loopExited {
			go tor.Kill(context.Background())
		}
		if s.reader != nil {
			go s.reader.Close()
		}
		synctest.Wait()
		time.Sleep(time.Hour)
		synctest.Wait()
		del(tor.Hash)
	})
	return
}

// wrapInfo wraps an info dictionary into a minimal .torrent file.
func wrapInfo(info []byte) []byte {
	return append(append([]byte("d4:info"), info...), 'e')
}

func TestVerifC17(t *testing.T) { verifLife(t, "C17") }

// TestVerifC16Life runs the same life-cycle scenarios (the real run() loop with
// real peers) for C16's accounting clause: the number of unchoked peers
// storrent accounts for is zero once the torrent and its peers are gone.
func TestVerifC16Life(t *testing.T) { verifLife(t, "C16") }

func verifLife(t *testing.T, prop string) {
	if os.Getenv("VERIF_OUT") == "" && vh.ReplayFile() == "" {
		t.Skip("verif harness: run through /verif/run")
	}
	res := vh.NewResult(prop)
	if prop != "C17" {
		res.FileOffset = 60
	}
	defer func() {
		vh.ClearCheckpoint(prop)
		if err := res.Write(); err != nil {
			t.Error(err)
		}
	}()
	judge := func(cfg lifeCfg) {
		vh.CheckpointKey(prop, prop+"/crash", cfg)
		stop := vh.Guard(prop, prop, cfg, 120*time.Second)
		o := runLife(t, cfg)
		stop()
		res.Add("transitions", int64(len(cfg.Ops)+2))
		res.Add("states", 1)
		res.Add("traces_validated_against_impl", 1)
		res.Add("scenarios", 1)
		if res.Counters["scenarios"]%300 == 0 {
			res.Write() // partial results survive a worker that dies later
		}
		res.Distinct("outcomes", strings.Join(o.results, ","))
		for _, p := range o.problems {
			if res.HasViolation(p.Key) || strings.HasPrefix(p.Key, "C16/") != (prop == "C16") {
				continue
			}
			hits := 0
			for i := 0; i < 5; i++ {
				for _, q := range runLife(t, cfg).problems {
					if q.Key == p.Key {
						hits++
						break
					}
				}
			}
			if hits < 2 {
				res.Add("replay_divergences", 1)
				continue
			}
			res.Violate(p.Key, p.Msg+"  ["+cfg.String()+"]", cfg)
		}
	}
	if vh.ReplayFile() != "" {
		var cfg lifeCfg
		if err := vh.LoadReplay(&cfg); err != nil {
			t.Fatal(err)
		}
		o := runLife(t, cfg)
		fmt.Printf("scenario: %s\nresults: %v\n", cfg, o.results)
		for _, p := range o.problems {
			fmt.Printf("RESULT: violation %s: %s\n", p.Key, p.Msg)
		}
		if len(o.problems) == 0 {
			fmt.Println("RESULT: property held on this scenario")
		}
		return
	}
	var names []string
	for n := range lifeOps() {
		names = append(names, n)
	}
	sortStrings(names)
	work := 0
	mine := func() bool { work++; return vh.Mine(work) }
	causes := []string{"goaway", "kill", "cancel"}
	// single calls: every op x every stop position x cause x peers x reader, plus full queue and dead
	for _, n := range names {
		for _, cause := range causes {
			for _, peers := range []int{0, 2} {
				for _, rd := range []bool{false, true} {
					if !mine() {
						continue
					}
					for _, at := range []int{0, 1} {
						judge(lifeCfg{Ops: []string{n}, StopAt: at, Cause: cause, Peers: peers, Reader: rd})
					}
					judge(lifeCfg{Ops: []string{n}, Cause: cause, Peers: peers, Reader: rd, FullQ: true})
					if peers > 0 && !rd {
						judge(lifeCfg{Ops: []string{n}, Cause: cause, Peers: peers, FullQ: true, DyingPeers: true})
					}
					judge(lifeCfg{Ops: []string{n}, Cause: cause, Peers: peers, Reader: rd, Dead: true})
				}
			}
		}
		if mine() {
			judge(lifeCfg{Ops: []string{n}, StopAt: 5, Cause: "none", Peers: 1})
		}
	}
	// ordered pairs (and, thorough, triples) of calls with the stop at every position
	for _, a := range names {
		for _, b := range names {
			if !mine() {
				continue
			}
			if vh.Expired() {
				res.NotExhaustive("deadline in the pairs")
				return
			}
			for at := 0; at <= 2; at++ {
				for _, cause := range causes {
					if !vh.Thorough() && cause == "cancel" && at != 1 {
						continue
					}
					judge(lifeCfg{Ops: []string{a, b}, StopAt: at, Cause: cause, Peers: 1, Reader: at == 1})
				}
			}
			// triples: all in thorough; in quick a third call from a core set
			third := names
			if !vh.Thorough() {
				third = []string{"RequestWant", "Kill", "SetConf", "GetPeers", "ReaderRead", "NewPeer"}
			}
			for _, c := range third {
				for at := 0; at <= 3; at++ {
					judge(lifeCfg{Ops: []string{a, b, c}, StopAt: at, Cause: "goaway", Peers: 1})
				}
			}
		}
	}
	res.Sample(lifeCfg{Ops: []string{"RequestWant", "GetStats"}, StopAt: 1, Cause: "goaway", Peers: 1, Reader: true})
	res.Sample(lifeCfg{Ops: []string{"SetConf"}, Cause: "kill", Peers: 2, FullQ: true})
}

func sortStrings(l []string) {
	for i := range l {
		for j := i + 1; j < len(l); j++ {
			if l[j] < l[i] {
				l[i], l[j] = l[j], l[i]
			}
		}
	}
}
