package tor

import "testing"

// C09: scheduler bookkeeping is conserved (availability and in-flight counts).

func c09Specs() []*bfsSpec {
	dl := []string{"bf:0:3", "have:0:1", "unchoke:0", "choke:0", "want:0:1", "want:1:0", "unwant:0:1", "tick",
		"ans:0:old:full", "ans:0:old:short", "ans:0:old:empty", "ans:0:old:long", "ans:0:old:corrupt", "ans:0:new:full", "ans:0:old:otherbegin", "ansq:0",
		"rej:0:old", "close:0", "adv:2", "adv:31", "donthave:0:0", "havenone:0", "haveall:0"}
	return []*bfsSpec{
		{BothMapOrders: true, Name: "c09-1peer-fast", Cfg: worldCfg{Geom: "g2x2", Peers: []peerCfg{{Fast: true, Ext: true, DontHave: 7}}, AutoDrain: true},
			Alphabet: dl, Depth: 6, DepthT: 8},
		{BothMapOrders: true, Name: "c09-shortblock", Cfg: worldCfg{Geom: "gshort", Peers: []peerCfg{{Fast: false, Ext: false}}, AutoDrain: true},
			Setup:    []string{"bf:0:7", "unchoke:0", "want:2:1"},
			Alphabet: []string{"tick", "ans:0:old:full", "ans:0:old:short", "ans:0:old:empty", "ans:0:old:corrupt", "choke:0", "unchoke:0", "close:0", "adv:2", "adv:31", "want:1:1", "unwant:2:1", "bf:0:3"},
			Depth: 6, DepthT: 8},
		{BothMapOrders: true, Name: "c09-tail", Cfg: worldCfg{Geom: "gtail", Peers: []peerCfg{{Fast: true, Ext: true, DontHave: 7}}, AutoDrain: true},
			Setup:    []string{"haveall:0", "unchoke:0", "want:2:1", "tick"},
			Alphabet: []string{"tick", "ans:0:old:full", "ans:0:new:full", "ans:0:old:long", "ans:0:old:short", "rej:0:old", "chokesilent:0", "choke:0", "unchoke:0", "close:0", "adv:2", "adv:31", "unwant:2:1", "evict"},
			Depth: 6, DepthT: 8},
		{BothMapOrders: true, Name: "c09-2peers", Cfg: worldCfg{Geom: "g2x2", Peers: []peerCfg{{Fast: true, Ext: true, DontHave: 7}, {}}, AutoDrain: true},
			Setup:    []string{"haveall:0", "bf:1:3", "unchoke:0", "unchoke:1", "want:0:1", "want:1:0", "tick"},
			Alphabet: []string{"tick", "ans:0:old:full", "ans:1:old:full", "ans:0:old:long", "ans:1:old:corrupt", "ansq:0", "ansq:1", "rej:0:old", "choke:1", "close:0", "close:1", "adv:2", "adv:31", "unwant:0:1", "bf:1:1", "stall:1", "resume:1"},
			Depth: 5, DepthT: 7},
		{BothMapOrders: true, Name: "c09-queue", Cfg: worldCfg{Geom: "g2x2", Peers: []peerCfg{{Fast: true, Ext: true, DontHave: 7}}, AutoDrain: true},
			Setup:    []string{"haveall:0", "unchoke:0", "want:0:1", "want:1:0", "cmd:0:0", "cmd:0:1", "cmd:0:2", "cmd:0:3"},
			Alphabet: []string{"ansq:0", "ans:0:old:full", "ans:0:new:full", "ans:0:old:corrupt", "rej:0:old", "choke:0", "chokesilent:0", "unchoke:0", "close:0", "adv:2", "adv:31", "unwant:0:1", "unwant:1:0", "donthave:0:1", "tick", "cmd:0:2"},
			Depth: 5, DepthT: 7},
		{BothMapOrders: true, Name: "c09-webseed", Cfg: worldCfg{Geom: "gtail", Peers: []peerCfg{{Fast: true, Ext: true, DontHave: 7}}, Webseed: true, AutoDrain: true},
			Setup:    []string{"bf:0:3"},
			Alphabet: []string{"want:2:1", "want:0:0", "unwant:2:1", "tick", "wsmode:404", "wsmode:body-short", "wsmode:body-long", "wsmode:shifted", "wsmode:honoured", "wsmode:body-fails-mid", "wsmode:transport-error",
				"unchoke:0", "ans:0:old:full", "adv:2", "adv:31", "adv:400", "close:0", "evict", "setconf:0", "setconf:1"},
			Depth: 5, DepthT: 6},
		// pieces larger than 1 MiB: a web-seed fetch covers only part of the hole it was started for
		{Name: "c09-webseed-4MiB-pieces", Cfg: worldCfg{Geom: "gbig", Peers: []peerCfg{{Fast: true, Ext: true, DontHave: 7}}, Webseed: true, AutoDrain: true},
			Alphabet: []string{"want:0:1", "want:2:0", "unwant:0:1", "tick", "wsmode:404", "wsmode:body-short", "wsmode:honoured", "wsmode:body-fails-mid", "adv:2", "adv:31", "adv:400", "setconf:0", "setconf:1"},
			Depth: 4, DepthT: 5},
		// a one-slot event queue with requests outstanding across a piece boundary: when they
		// are all dropped at once (choke by a non-Fast peer, disconnect) the peer's
		// drop events queue up inside the peer
		{Name: "c09-smallqueue-drops", Cfg: worldCfg{Geom: "g2x2", Peers: []peerCfg{{Ext: true, DontHave: 7}}, EventCap: 1},
			Setup:    []string{"drain", "bf:0:3", "drain", "unchoke:0", "drain", "want:0:1", "want:1:0", "cmd:0:0", "cmd:0:1", "cmd:0:2", "cmd:0:3", "drain"},
			Alphabet: []string{"choke:0", "close:0", "ev", "drain", "have:0:1", "ans:0:old:full", "unchoke:0", "adv:31"},
			Depth: 4, DepthT: 6},
		{Name: "c09-smallqueue-drops-fast", Cfg: worldCfg{Geom: "g2x2", Peers: []peerCfg{{Fast: true, Ext: true, DontHave: 7}}, EventCap: 2},
			Setup:    []string{"drain", "haveall:0", "drain", "unchoke:0", "drain", "want:0:1", "want:1:0", "cmd:0:0", "cmd:0:1", "cmd:0:2", "cmd:0:3", "drain"},
			Alphabet: []string{"chokesilent:0", "close:0", "ev", "drain", "have:0:1", "rej:0:old", "rej:0:new", "adv:31", "adv:2"},
			Depth: 4, DepthT: 6},
		// a magnet link: advertisements made before the metadata is known are applied when it
		// completes, while the torrent's loop lags behind the peers (manual event delivery)
		{Name: "c09-magnet-lagging-loop", Cfg: worldCfg{Geom: "g2x2", Magnet: true, Peers: []peerCfg{{Fast: true, Ext: true, DontHave: 7, Metadata: 8}, {Fast: true, Ext: true, DontHave: 7, Metadata: 8, MetadataSize: 1}}},
			Setup:    []string{"drain", "haveall:0", "drain", "mtick", "drain", "manswer:1"},
			Alphabet: []string{"ev", "drain", "donthave:0:0", "donthave:0:1", "have:1:1", "bf:1:3", "havenone:0", "haveall:1", "close:0"},
			Depth: 5, DepthT: 7},
		// advertisements while the torrent's loop lags behind the peer: a Bitfield, Have,
		// HaveAll/HaveNone or DontHave is handled by the peer while the event that reports an
		// earlier advertisement is still queued (an event that aliases the peer's live bitmap
		// is applied with later advertisements already in it, and those are then counted twice)
		{BothMapOrders: true, Name: "c09-lagging-advertisements", Cfg: worldCfg{Geom: "g2x2", Peers: []peerCfg{{Fast: true, Ext: true, DontHave: 7}, {}}, AutoDrain: false},
			Alphabet: []string{"ev", "drain", "bf:0:1", "bf:1:2", "have:0:1", "have:1:0", "haveall:0", "havenone:0", "donthave:0:0", "close:0", "close:1"},
			Depth: 5, DepthT: 7},
		{BothMapOrders: true, Name: "c09-manual-events", Cfg: worldCfg{Geom: "g2x2", Peers: []peerCfg{{Fast: true, Ext: true, DontHave: 7}, {Fast: true}}, AutoDrain: false},
			Setup:    []string{"haveall:0", "drain", "haveall:1", "drain", "unchoke:0", "drain", "unchoke:1", "drain", "want:0:1", "tick"},
			Alphabet: []string{"ev", "drain", "tick", "ans:0:old:full", "ans:1:old:full", "close:0", "close:1", "choke:0", "unwant:0:1", "adv:2"},
			Depth: 6, DepthT: 8},
	}
}

func TestVerifC09(t *testing.T) {
	specs := c09Specs()
	for _, s := range specs {
		if !s.Cfg.Magnet {
			continue
		}
		// peers that announce a metadata size announce the true one
		g := geomByName(s.Cfg.Geom)
		truth := make([]byte, g.Length)
		for i := range truth {
			truth[i] = wtruthByte(int64(i))
		}
		size := uint32(len(buildInfo(g, truth, "world", s.Cfg.InfoSize)))
		for i := range s.Cfg.Peers {
			if s.Cfg.Peers[i].MetadataSize != 0 {
				s.Cfg.Peers[i].MetadataSize = size
			}
		}
	}
	runSpecs(t, "C09", specs)
}

// Worlds in which a peer is stepped arm by arm (profile worldsel, see world_test.go):
// the order in which a peer hands its events to the torrent, handles the
// remote's messages and the torrent's commands is enumerated instead of being
// left to the runtime's choice among ready select arms.
func c09SelSpecs() []*bfsSpec {
	return []*bfsSpec{
		// a one-slot event queue: advertisements park inside the peer while the
		// remote retracts them
		{BothMapOrders: true, Name: "c09-sel-queue1", Cfg: worldCfg{Geom: "g2x2", Peers: []peerCfg{{Fast: true, Ext: true, DontHave: 7}}, EventCap: 1, Gates: true},
			Setup:    []string{"drain", "have:0:0", "have:0:1", "gate:0"},
			Alphabet: []string{"ev", "drain", "donthave:0:1", "donthave:0:0", "have:0:1", "havenone:0", "haveall:0", "pstep:0:2", "pstep:0:3", "pstep:0:4", "ungate:0", "gate:0", "close:0"},
			Depth: 5, DepthT: 7},
		// requests in flight while chokes, answers, rejects and scheduler commands cross
		{BothMapOrders: true, Name: "c09-sel-requests", Cfg: worldCfg{Geom: "g2x2", Peers: []peerCfg{{Fast: true, Ext: true, DontHave: 7}}, Gates: true},
			Setup:    []string{"haveall:0", "drain", "unchoke:0", "drain", "want:0:1", "tick", "drain", "gate:0"},
			// (cmd: a scheduler command lands in the queue of a peer that is busy - here: gated -
			// and may exit before it reads it)
			Alphabet: []string{"choke:0", "unchoke:0", "ans:0:old:full", "rej:0:old", "pstep:0:2", "pstep:0:3", "pstep:0:4", "pstep:0:6", "ev", "drain", "tick", "cmd:0:2", "ungate:0", "unwant:0:1", "adv:2", "close:0"},
			Depth: 5, DepthT: 7},
		{BothMapOrders: true, Name: "c09-sel-2peers", Cfg: worldCfg{Geom: "g2x2", Peers: []peerCfg{{Fast: true, Ext: true, DontHave: 7}, {}}, EventCap: 2, Gates: true},
			Setup:    []string{"drain", "bf:1:3", "drain", "have:0:0", "drain", "gate:0"},
			Alphabet: []string{"ev", "drain", "have:0:1", "donthave:0:0", "donthave:0:1", "havenone:0", "bf:1:1", "close:1", "pstep:0:3", "pstep:0:4", "ungate:0", "close:0"},
			Depth: 5, DepthT: 7},
	}
}

func TestVerifC09Sel(t *testing.T) { runSpecs(t, "C09", c09SelSpecs()) }
