package tor

// C11: everything storrent sends to a peer is protocol-conformant.  The wire
// monitor lives in world_test.go (remote.onFrame); this file holds the BFS
// worlds that stress it, the advertisement / geometry sweeps and the
// explicit-state search over the peer-exchange bookkeeping.

import (
	"fmt"
	"net/netip"
	"os"
	"sort"
	"strings"
	"testing"
	"testing/synctest"

	"github.com/jech/storrent/peer"
	"github.com/jech/storrent/pex"
	"github.com/jech/storrent/zzverif/vh"
)

func c11Specs() []*bfsSpec {
	return []*bfsSpec{
		{Name: "c11-fast", Cfg: worldCfg{Geom: "gtail", Peers: []peerCfg{{Fast: true, Ext: true, DontHave: 7, ReqQ: 2}}, AutoDrain: true},
			Alphabet: []string{"bf:0:7", "bf:0:5", "have:0:1", "donthave:0:2", "havenone:0", "unchoke:0", "choke:0", "chokesilent:0", "allowfast:0:2", "allowfast:0:0",
				"want:2:1", "want:0:0", "unwant:2:1", "tick", "ans:0:old:full", "ans:0:old:corrupt", "rej:0:old", "adv:2", "adv:31", "cmd:0:4", "cmd:0:5"},
			Depth: 6, DepthT: 8},
		{Name: "c11-plain-reqq1", Cfg: worldCfg{Geom: "gshort", Peers: []peerCfg{{Ext: true, DontHave: 3, ReqQ: 1}}, AutoDrain: true},
			Setup:    []string{"bf:0:7"},
			Alphabet: []string{"bf:0:3", "donthave:0:2", "unchoke:0", "choke:0", "want:2:1", "want:1:0", "unwant:2:1", "tick", "ans:0:old:full", "ans:0:new:full", "ans:0:old:short", "adv:2", "adv:31", "advms:300",
				"cmd:0:0", "cmd:0:1", "cmd:0:4", "stall:0", "resume:0"},
			Depth: 6, DepthT: 8},
		{Name: "c11-queue-revoke", Cfg: worldCfg{Geom: "g2x2", Peers: []peerCfg{{Fast: true, Ext: true, DontHave: 7, ReqQ: 3}}, AutoDrain: true},
			Setup:    []string{"haveall:0", "unchoke:0", "want:0:1", "want:1:0", "cmd:0:0", "cmd:0:1", "cmd:0:2", "cmd:0:3"},
			Alphabet: []string{"donthave:0:1", "donthave:0:0", "bf:0:1", "havenone:0", "choke:0", "chokesilent:0", "unchoke:0", "ans:0:old:full", "rej:0:old", "rej:0:new", "ansq:0", "adv:2", "adv:31", "unwant:1:0", "tick", "have:0:1"},
			Depth: 6, DepthT: 8},
		{Name: "c11-seeding", Cfg: worldCfg{Geom: "g9", Peers: []peerCfg{{Fast: true, Ext: true, DontHave: 7}, {Ext: true, DontHave: 5}}, Have: []int{0, 3, 8}, AutoDrain: true},
			Alphabet: []string{"evict", "bf:0:511", "unchoke:0", "want:1:1", "tick", "ans:0:old:full", "ans:0:old:corrupt", "close:0", "adv:2", "interested:1", "unchokepeer:1", "req:1:3:0:16384", "advms:300"},
			Depth: 5, DepthT: 6},
	}
}

// pexLiveness: after three more PEX rounds every remote's view of the swarm (as
// told over PEX) names exactly the peers that are connected and can be
// announced (outgoing connections; an incoming one has no known listening port).
func pexLiveness(w *World) {
	// (a peer may also leave during these rounds - a stalled one dies of a write
	// timeout: a departure counts once it has been observed for two full rounds)
	goneFor := map[int]int{}
	note := func() {
		for _, o := range w.remotes {
			if o.closed || o.exited() {
				goneFor[o.idx]++
			}
		}
	}
	note()
	for i := 0; i < 4; i++ {
		w.apply("adv:61")
		w.checkInvariants()
		note()
	}
	if len(w.prob) > 0 || w.loopDead {
		return
	}
	for _, r := range w.remotes {
		if r.closed || r.exited() || r.cfg.Pex == 0 || !r.sentExt0 || r.stalled || r.pendingOut() {
			continue
		}
		for k := range r.pexKnown {
			alive := false
			for _, o := range w.remotes {
				if o != r && o.p.IP == k.Addr() && (!(o.closed || o.exited()) || goneFor[o.idx] < 3) {
					alive = true // connected, or gone for less than two full rounds
				}
			}
			if !alive {
				w.problem("C11", "C11/pex-world/departure-never-reported", "more than two PEX rounds after it left, remote %d still has %v on its list: the departure is never reported", r.idx, k)
			}
		}
		for _, o := range w.remotes {
			if o == r || o.closed || o.exited() || o.cfg.Incoming {
				continue
			}
			found := false
			for k := range r.pexKnown {
				if k.Addr() == o.p.IP {
					found = true
				}
			}
			if !found {
				w.problem("C11", "C11/pex-world/peer-never-announced", "three PEX rounds later remote %d has still not been told about connected peer %d (%v)", r.idx, o.idx, o.p.IP)
			}
		}
	}
}

func c11WorldExtras() []*bfsSpec {
	pexer := peerCfg{Fast: true, Ext: true, Pex: 9, DontHave: 7}
	natted := peerCfg{Ext: true, Pex: 9, ExtPort: 7777} // listens on another port than the one we dialled
	incoming := peerCfg{Ext: true, Pex: 9, Incoming: true, ExtPort: 6999}
	return []*bfsSpec{
		// the advertised queue depth counts whether or not the handshake also carries an "m" dictionary
		{Name: "c11-reqq-without-m", Cfg: worldCfg{Geom: "g2x2", Peers: []peerCfg{{Ext: true, ReqQ: 2, NoM: true}}, AutoDrain: true},
			Setup:    []string{"bf:0:3", "unchoke:0", "fastlink:0", "want:0:1", "want:1:0", "cmd:0:0", "cmd:0:1", "cmd:0:2", "cmd:0:3"},
			Alphabet: []string{"ans:0:old:full", "ans:0:new:full", "advms:100", "advms:300", "adv:2", "tick", "choke:0", "unchoke:0", "unwant:1:0", "cmd:0:2", "cmd:0:3"},
			Depth: 5, DepthT: 7},
		// a link measured fast and long: only the advertised queue depth limits the pipeline
		{Name: "c11-fastlink-reqq3", Cfg: worldCfg{Geom: "g9", Peers: []peerCfg{{Fast: true, Ext: true, DontHave: 7, ReqQ: 3}}, AutoDrain: true},
			Setup:    []string{"haveall:0", "unchoke:0", "fastlink:0", "want:0:1", "want:1:1", "want:2:1", "want:3:0", "want:4:0"},
			Alphabet: []string{"tick", "cmd:0:0", "cmd:0:1", "cmd:0:2", "cmd:0:3", "cmd:0:4", "ans:0:old:full", "ans:0:new:full", "rej:0:old", "choke:0", "unchoke:0", "advms:100", "adv:2", "unwant:1:1"},
			Depth: 5, DepthT: 6},
		// peer exchange at the level of the torrent: who is announced to whom, under which address, and who is dropped
		{Name: "c11-pex-world", Cfg: worldCfg{Geom: "g2x2", Peers: []peerCfg{pexer, natted, incoming}, AutoDrain: true},
			// (stall + flood: remote 0 has stopped reading and storrent's writer to it is more
			// than half full - 40 of 64 slots - when a PEX round comes)
			Alphabet: []string{"adv:61", "adv:2", "close:1", "close:2", "addpeer:2", "addpeer:6", "stall:0", "flood:0:40", "resume:0"},
			Depth: 4, DepthT: 5, Live: pexLiveness},
		{Name: "c11-pex-world-natted-first", Cfg: worldCfg{Geom: "g2x2", Peers: []peerCfg{natted, pexer}, AutoDrain: true},
			Alphabet: []string{"adv:61", "adv:2", "close:0", "close:1", "addpeer:2", "addpeer:6"},
			Depth: 4, DepthT: 5, Live: pexLiveness},
	}
}

func TestVerifC11(t *testing.T) { runSpecs(t, "C11", append(c11Specs(), c11WorldExtras()...)) }

// TestVerifC11Sweeps: the initial advertisement for every piece count and local
// piece set, and the peer-exchange state machine.
func TestVerifC11Sweeps(t *testing.T) {
	if os.Getenv("VERIF_OUT") == "" {
		t.Skip("verif harness: run through /verif/run")
	}
	res := vh.NewResult("C11")
	defer func() {
		os.Setenv("VERIF_SHARD", fmt.Sprintf("%d/100", 50+shardIdx()))
		if err := res.Write(); err != nil {
			t.Error(err)
		}
	}()
	work := 0
	mine := func() bool { work++; return vh.Mine(work) }
	var ns []int
	for n := 1; n <= 80; n++ {
		ns = append(ns, n)
	}
	ns = append(ns, 144, 145, 1024)
	for _, n := range ns {
		sets := map[string][]int{"none": nil, "first": {0}, "last": {n - 1}}
		var all, alt, allbut []int
		for i := 0; i < n; i++ {
			all = append(all, i)
			if i%2 == 0 {
				alt = append(alt, i)
			}
			if i != n/2 {
				allbut = append(allbut, i)
			}
		}
		sets["all"], sets["alt"], sets["allbut"] = all, alt, allbut
		if n <= 16 {
			for i := 0; i < n; i++ {
				sets[fmt.Sprint("one", i)] = []int{i}
			}
		}
		if n >= 144 {
			sets["sparse"] = []int{7} // fewer than n/72 pieces: sent as Have messages
		}
		var names []string
		for k := range sets {
			names = append(names, k)
		}
		sort.Strings(names)
		for _, name := range names {
			for caps := 0; caps < 4; caps++ {
				for _, miss := range []int{0, 100} {
					if !mine() {
						continue
					}
					cfg := worldCfg{Geom: fmt.Sprintf("n:%d:%d", n, miss), Have: sets[name], AutoDrain: true,
						Peers: []peerCfg{{Fast: caps&1 != 0, Ext: caps&2 != 0, DontHave: 7}}}
					spec := &bfsSpec{Name: "c11-sweep", Cfg: cfg}
					hist := []string{"haveall:0", "bf:0:1", "unchoke:0"}
					if caps&1 == 0 {
						hist = hist[1:]
					}
					// a little activity so that requests for the geometry's blocks are seen too
					if len(sets[name]) < n {
						want := 0
						for _, h := range sets[name] {
							if h == want {
								want++
							}
						}
						hist = append(hist, fmt.Sprintf("want:%d:1", want), "tick")
						if n-1 != want && name != "last" && name != "all" {
							hist = append(hist, fmt.Sprintf("want:%d:0", n-1), "tick")
						}
					}
					var o runOut
					func() {
						defer func() {
							if p := recover(); p != nil {
								res.Violate("C11/sweep-panic", fmt.Sprintf("panic: %v [n=%d set=%s caps=%d]", p, n, name, caps), worldReplay{"c11-sweep", hist})
							}
						}()
						o = runWorldCfg(t, spec, hist)
					}()
					res.Add("evaluations", 1)
					res.Add("transitions", int64(o.steps))
					res.Add("states", 1)
					res.Add("traces_validated_against_impl", 1)
					res.Add("sweep_worlds", 1)
					for _, p := range o.probs {
						if p.Prop == "C11" {
							res.Violate(p.Key, fmt.Sprintf("%s  [advertisement sweep: %d pieces, local set %q, fast=%v ext=%v, last piece short by %d]", p.Msg, n, name, caps&1 != 0, caps&2 != 0, miss),
								map[string]any{"sweep": cfg, "history": hist})
						}
					}
				}
			}
		}
	}
	// peer exchange: explicit-state search over add/del/send/failed-send with 2 addresses
	if mine() {
		pexSearch(res)
	}
}

func runWorldCfg(t *testing.T, spec *bfsSpec, hist []string) (out runOut) {
	synctest.Test(t, func(t *testing.T) {
		w := newWorld(spec.Cfg)
		w.settle()
		for _, tr := range hist {
			if w.can(tr) {
				w.apply(tr)
			}
		}
		w.checkInvariants()
		w.finish()
		out.steps = w.transitions
		w.dispose()
		out.probs = w.prob
	})
	return
}

func shardIdx() int {
	i, _ := vh.Shard()
	return i
}

// pexSearch: BFS over sequences of {add p, add q, del p, del q, send, send that
// fails (congested writer)} on the real pexState; the reference is the set of
// addresses the remote has been told.
func pexSearch(res *vh.Result) {
	p := pex.Peer{Addr: netip.MustParseAddrPort("1.1.1.1:1")}
	q := pex.Peer{Addr: netip.MustParseAddrPort("2.2.2.2:2")}
	// (a failing send is not in the alphabet: sendPex only writes when the writer
	// channel is at most half full, so the write cannot fail while the peer lives)
	ops := []string{"add-p", "add-q", "del-p", "del-q", "send"}
	type state struct {
		hist []string
	}
	run := func(hist []string) (key string, problem string) {
		var st peer.VerifPex
		told := map[string]bool{}    // what the remote currently believes
		current := map[string]bool{} // the real peer set
		// every delta handed to the writer, as returned (possibly aliasing
		// internal buffers) and as it was at that moment: a message sitting in
		// the writer channel must not change when later events arrive
		type sentMsg struct {
			add, del         []pex.Peer
			addCopy, delCopy []pex.Peer
		}
		var queued []sentMsg
		unchanged := func() string {
			for _, q := range queued {
				if fmt.Sprint(q.add) != fmt.Sprint(q.addCopy) || fmt.Sprint(q.del) != fmt.Sprint(q.delCopy) {
					return fmt.Sprintf("a PEX message changed after it was handed to the writer: added %v -> %v, dropped %v -> %v", q.addCopy, q.add, q.delCopy, q.del)
				}
			}
			return ""
		}
		for _, op := range hist {
			switch op {
			case "add-p":
				st.Add(p)
				current["p"] = true
			case "add-q":
				st.Add(q)
				current["q"] = true
			case "del-p":
				st.Del(p)
				delete(current, "p")
			case "del-q":
				st.Del(q)
				delete(current, "q")
			case "send", "sendfail":
				add, del := st.Compute()
				if op == "sendfail" {
					st.Unsend(add, del)
					continue
				}
				queued = append(queued, sentMsg{add, del, append([]pex.Peer{}, add...), append([]pex.Peer{}, del...)})
				name := func(x pex.Peer) string {
					if x.Addr == p.Addr {
						return "p"
					}
					return "q"
				}
				for _, x := range del {
					if !told[name(x)] {
						return "", fmt.Sprintf("a PEX delta drops %s, which the remote was never told about", name(x))
					}
					delete(told, name(x))
				}
				for _, x := range add {
					if told[name(x)] {
						return "", fmt.Sprintf("a PEX delta announces %s, which the remote already holds", name(x))
					}
					told[name(x)] = true
				}
			}
		}
		if u := unchanged(); u != "" {
			return "", u
		}
		return st.Dump() + fmt.Sprint(told, current), ""
	}
	// eventual consistency: from any state, two successful sends bring told == current
	settle := func(hist []string) string {
		h := append(append([]string{}, hist...), "send", "send")
		var st peer.VerifPex
		told := map[string]bool{}
		current := map[string]bool{}
		for _, op := range h {
			switch op {
			case "add-p":
				st.Add(p)
				current["p"] = true
			case "add-q":
				st.Add(q)
				current["q"] = true
			case "del-p":
				st.Del(p)
				delete(current, "p")
			case "del-q":
				st.Del(q)
				delete(current, "q")
			case "send", "sendfail":
				add, del := st.Compute()
				if op == "sendfail" {
					st.Unsend(add, del)
					continue
				}
				for _, x := range del {
					if x.Addr == p.Addr {
						delete(told, "p")
					} else {
						delete(told, "q")
					}
				}
				for _, x := range add {
					if x.Addr == p.Addr {
						told["p"] = true
					} else {
						told["q"] = true
					}
				}
			}
		}
		if fmt.Sprint(told) != fmt.Sprint(current) {
			return fmt.Sprintf("after the peer set stopped changing and two PEX messages were sent, the remote believes %v but the peer set is %v", keys(told), keys(current))
		}
		return ""
	}
	seen := map[string]bool{}
	frontier := [][]string{nil}
	depth := 7
	if vh.Thorough() {
		depth = 9
	}
	for d := 0; d < depth; d++ {
		var next [][]string
		for _, h := range frontier {
			for _, op := range ops {
				nh := append(append([]string{}, h...), op)
				res.Add("transitions", 1)
				res.Add("evaluations", 1)
				res.Add("pex_transitions", 1)
				key, prob := run(nh)
				if prob == "" {
					prob = settle(nh)
				}
				if prob != "" {
					k := "C11/pex/" + strings.ReplaceAll(strings.SplitN(prob, ",", 2)[0], " ", "-")
					if len(k) > 60 {
						k = k[:60]
					}
					res.Violate(k, fmt.Sprintf("%s  [peer-exchange history %v]", prob, nh), map[string]any{"pex_history": nh})
					continue
				}
				if !seen[key] {
					seen[key] = true
					next = append(next, nh)
					res.Add("states", 1)
					res.Add("pex_states", 1)
				}
			}
		}
		frontier = next
	}
	res.Sample(map[string]any{"pex_history": []string{"add-p", "send", "del-p", "add-p", "send", "del-p", "send"}})
}

func keys(m map[string]bool) []string {
	var l []string
	for k := range m {
		l = append(l, k)
	}
	sort.Strings(l)
	return l
}

// Peers stepped arm by arm (profile worldsel): scheduler commands, chokes,
// answers and rejects cross at the granularity of single select arms.
func c11SelSpecs() []*bfsSpec {
	al := []string{"choke:0", "unchoke:0", "ans:0:old:full", "rej:0:old", "tick", "cmd:0:2", "unwant:0:1", "pstep:0:2", "pstep:0:3", "pstep:0:6", "ev", "drain", "adv:2", "ungate:0", "gate:0"}
	return []*bfsSpec{
		{Name: "c11-sel-fast", Cfg: worldCfg{Geom: "g2x2", Peers: []peerCfg{{Fast: true, Ext: true, DontHave: 7}}, Gates: true},
			Setup: []string{"haveall:0", "drain", "unchoke:0", "drain", "want:0:1", "want:1:0", "tick", "drain", "gate:0"}, Alphabet: al, Depth: 5, DepthT: 7},
		{Name: "c11-sel-plain-reqq2", Cfg: worldCfg{Geom: "g2x2", Peers: []peerCfg{{Ext: true, ReqQ: 2}}, Gates: true},
			Setup: []string{"bf:0:3", "drain", "unchoke:0", "drain", "want:0:1", "want:1:0", "tick", "drain", "gate:0"},
			Alphabet: []string{"choke:0", "unchoke:0", "ans:0:old:full", "ans:0:new:full", "tick", "cmd:0:2", "cmd:0:3", "unwant:0:1", "pstep:0:2", "pstep:0:3", "pstep:0:6", "ev", "drain", "adv:2", "ungate:0"}, Depth: 5, DepthT: 7},
	}
}

func TestVerifC11Sel(t *testing.T) { runSpecs(t, "C11", c11SelSpecs()) }

// TestVerifC11Huge: what storrent requests from a seed for the last pieces of a torrent
// beyond 4 GiB (block numbers >= 2^18, offsets that do not fit 32 bits): every Request
// names a block of its piece.  The scenarios are C02's (real AddTorrent loop, real peer).
func TestVerifC11Huge(t *testing.T) {
	if vh.ReplayFile() != "" {
		var sc readScenario
		if err := vh.LoadReplay(&sc); err != nil {
			t.Fatal(err)
		}
		probs, out := runRead(t, sc)
		fmt.Printf("scenario: %s\noutcome: %s\n", sc, out)
		n := 0
		for _, p := range probs {
			if p.Prop == "C11" {
				fmt.Printf("RESULT: violation %s: %s\n", p.Key, p.Msg)
				n++
			}
		}
		if n == 0 {
			fmt.Println("RESULT: property held on this scenario")
		}
		return
	}
	if os.Getenv("VERIF_OUT") == "" {
		t.Skip("verif harness: run through /verif/run")
	}
	res := vh.NewResult("C11")
	defer func() {
		os.Setenv("VERIF_SHARD", fmt.Sprintf("%d/100", 80+shardIdx()))
		if err := res.Write(); err != nil {
			t.Error(err)
		}
	}()
	work := 0
	for _, sc := range hugeSeedScenarios() {
		work++
		if !vh.Mine(work) {
			continue
		}
		probs, out := runRead(t, sc)
		res.Add("huge_scenarios", 1)
		res.Add("evaluations", 1)
		res.Distinct("huge_outcomes", out)
		for _, p := range probs {
			if p.Prop != "C11" || res.HasViolation(p.Key) {
				continue
			}
			res.Violate(p.Key, p.Msg, sc)
		}
	}
}
