package piece

// C03 (eviction order and completeness): exhaustive sequential enumeration of
// small stores x piece states x access ages x availability vectors x targets,
// on the real Pieces.Expire with a virtual clock.

import (
	"fmt"
	"os"
	"testing"
	"time"

	"github.com/jech/storrent/alloc"
	"github.com/jech/storrent/mono"
	"github.com/jech/storrent/zzverif/vh"
	"github.com/jech/storrent/zzverif/vrand"
	"github.com/jech/storrent/zzverif/vtime"
)

func TestVerifEvict(t *testing.T) {
	if os.Getenv("VERIF_OUT") == "" {
		t.Skip("verif harness: run through /verif/run")
	}
	res := vh.NewResult("C03")
	nontriv := map[string]bool{}
	defer func() {
		vtime.ClearVirtual()
		vrand.Unfix()
		res.Add("distinct_outcomes", int64(len(nontriv)))
		i, _ := vh.Shard()
		os.Setenv("VERIF_SHARD", fmt.Sprintf("%d/100", 40+i))
		if err := res.Write(); err != nil {
			t.Error(err)
		}
	}()
	maxPieces := 3
	if vh.Thorough() {
		maxPieces = 4
	}
	// "bufonly": a block shorter than 16 KiB arrived first (the head of a web-seed
	// body, a truncated block): the buffer is allocated and counted, no block is marked
	states := []string{"empty", "partial", "full", "complete", "bufonly"}
	ages := []uint32{0, 1, 10, 7199, 7200, 9000}
	avs := []int{0, 1, 3}
	const psize = 2 * chunk
	now := 20000 * time.Second
	work := 0
	for n := 1; n <= maxPieces; n++ {
		// one digit per piece for state, age, availability
		total := 1
		for i := 0; i < n; i++ {
			total *= len(states) * len(ages)
		}
		for code := 0; code < total; code++ {
			work++
			if !vh.Mine(work) {
				continue
			}
			if vh.Expired() {
				res.NotExhaustive("deadline in the eviction enumeration")
				return
			}
			st := make([]string, n)
			ag := make([]uint32, n)
			c := code
			for i := 0; i < n; i++ {
				st[i] = states[c%len(states)]
				c /= len(states)
				ag[i] = ages[c%len(ages)]
				c /= len(ages)
			}
			// availability vectors: all-equal, ascending, descending, and shorter than the table
			avVecs := [][]uint16{nil}
			for _, a := range avs {
				v := make([]uint16, n)
				for i := range v {
					v[i] = uint16(a)
				}
				avVecs = append(avVecs, v)
			}
			asc := make([]uint16, n)
			desc := make([]uint16, n)
			for i := range asc {
				asc[i] = uint16(avs[i%len(avs)])
				desc[i] = uint16(avs[(n-1-i)%len(avs)])
			}
			avVecs = append(avVecs, asc, desc, asc[:n/2])
			for _, av := range avVecs {
				for target := int64(-1); target <= int64(n+1)*psize; target += psize - int64(n%2) {
					for perm := 1; perm <= 2; perm++ {
						res.Add("schedules", 1)
						res.Add("eviction_cases", 1)
						vtime.SetVirtual(now)
						vrand.SetPermMode(perm)
						g := geom{"ev", psize, int64(n) * psize}
						w := newWorld(g)
						for i := 0; i < n; i++ {
							idx := uint32(i)
							switch st[i] {
							case "bufonly":
								w.ps.AddData(idx, 0, w.good(idx, 0, 100), 1)
							case "partial":
								w.ps.AddData(idx, 0, w.good(idx, 0, chunk), 1)
							case "full":
								w.ps.AddData(idx, 0, w.good(idx, 0, psize), 1)
							case "complete":
								w.ps.AddData(idx, 0, w.good(idx, 0, psize), 1)
								if done, _, _ := w.ps.Finalise(idx, w.hashes[i]); !done {
									panic("setup")
								}
							}
							w.ps.pieces[i].SetTime(mono.Now() - mono.Time(ag[i]))
						}
						hadData := make([]bool, n)
						wasComplete := make([]bool, n)
						for i := range w.ps.pieces {
							hadData[i] = w.ps.pieces[i].data != nil
							wasComplete[i] = w.ps.pieces[i].state == stateComplete
						}
						before := w.ps.Bytes()
						var cb []uint32
						var pan any
						ret := 0
						func() {
							defer func() { pan = recover() }()
							ret = w.ps.Expire(target, av, func(i uint32) { cb = append(cb, i) })
						}()
						desc := fmt.Sprintf("[states %v ages %v availability %v target %d perm %d]", st, ag, av, target, perm)
						rp := map[string]any{"states": st, "ages": ag, "availability": av, "target": target, "perm": perm}
						if pan != nil {
							res.Violate("C03/expire-panic", fmt.Sprintf("Expire panicked: %v %s", pan, desc), rp)
							w.cleanup()
							continue
						}
						after := w.ps.Bytes()
						tgt := target
						if tgt < 0 {
							tgt = 0
						}
						if after > tgt {
							res.Violate("C03/expire-short-of-target", fmt.Sprintf("after Expire the store holds %d bytes, the target is %d (it held %d) %s", after, target, before, desc), rp)
						}
						if before <= tgt && after != before {
							res.Violate("C03/expire-evicts-below-target", fmt.Sprintf("the store was already within the target (%d <= %d) but Expire evicted down to %d %s", before, target, after, desc), rp)
						}
						dropped := 0
						cbset := map[uint32]int{}
						for _, i := range cb {
							cbset[i]++
						}
						avOf := func(i int) uint16 {
							if i < len(av) {
								return av[i]
							}
							return 0
						}
						precedes := func(a, b int) bool { // a is evicted strictly before b by the documented order
							if ag[a] >= 7200 && ag[b] >= 7200 && avOf(a) != avOf(b) {
								return avOf(a) > avOf(b)
							}
							return ag[a] > ag[b]
						}
						for i := 0; i < n; i++ {
							gone := hadData[i] && w.ps.pieces[i].data == nil
							if gone {
								dropped++
								if wasComplete[i] && cbset[uint32(i)] != 1 {
									res.Violate("C03/expire-callback", fmt.Sprintf("complete piece %d was dropped and reported %d times %s", i, cbset[uint32(i)], desc), rp)
								}
								if !wasComplete[i] && cbset[uint32(i)] != 0 {
									res.Violate("C03/expire-callback", fmt.Sprintf("incomplete piece %d was reported as a dropped complete piece %s", i, desc), rp)
								}
								for r := 0; r < n; r++ {
									if w.ps.pieces[r].data != nil && precedes(r, i) {
										res.Violate("C03/expire-order", fmt.Sprintf("piece %d (age %d s, availability %d) was evicted while piece %d (age %d s, availability %d), which comes earlier in the eviction order, was kept %s", i, ag[i], avOf(i), r, ag[r], avOf(r), desc), rp)
									}
								}
							} else if cbset[uint32(i)] != 0 {
								res.Violate("C03/expire-callback", fmt.Sprintf("piece %d was reported dropped but still holds its buffer %s", i, desc), rp)
							}
						}
						if ret != dropped {
							res.Violate("C03/expire-count", fmt.Sprintf("Expire returned %d, %d pieces were dropped %s", ret, dropped, desc), rp)
						}
						w.checkAccounting("after Expire")
						for _, p := range w.problems {
							res.Violate("C03/accounting", p+desc, rp)
						}
						if got := alloc.Bytes() - w.base0; got != after {
							res.Violate("C03/accounting", fmt.Sprintf("alloc reports %d bytes, Pieces.Bytes() %d %s", got, after, desc), rp)
						}
						nontriv[fmt.Sprintf("%d/%d/%v", dropped, len(cb), after == 0)] = true
						w.cleanup()
					}
				}
			}
		}
	}
	res.Sample(map[string]any{"states": []string{"complete", "partial", "full"}, "ages": []int{7200, 10, 9000}, "availability": []int{3, 0, 1}, "target": 32768})
}
