package piece

// C03 (allocation faults): every sequence of store operations up to a depth,
// crossed with every subset of failing mmap calls among the first few, on a
// store whose pieces are mmap'd (>= 128 KiB) or on the heap.  After every
// operation the accounting invariant is evaluated: alloc.Bytes() equals the
// total size of the buffers the pieces hold, which equals what the (shimmed)
// kernel interface says is mapped plus the heap pieces; a failed allocation
// leaves nothing accounted and nothing mapped; nothing is unmapped twice.

import (
	"fmt"
	"os"
	"strings"
	"testing"

	"github.com/jech/storrent/alloc"
	"github.com/jech/storrent/zzverif/vh"
	"github.com/jech/storrent/zzverif/vunix"
)

func TestVerifAllocFault(t *testing.T) {
	if os.Getenv("VERIF_OUT") == "" {
		t.Skip("verif harness: run through /verif/run")
	}
	res := vh.NewResult("C03")
	res.FileOffset = 120
	nontriv := map[string]bool{}
	defer func() {
		res.Add("distinct_outcomes", int64(len(nontriv)))
		if err := res.Write(); err != nil {
			t.Error(err)
		}
	}()
	// pieces 0 and 1 are mmap'd (128 KiB), piece 2 (16 KiB + 7) is on the heap
	g := geom{"mmap3", 8 * chunk, 2*8*chunk + chunk + 7}
	type aop struct {
		name string
		run  func(w *world) string
	}
	add := func(i, begin, l uint32) aop {
		return aop{fmt.Sprintf("Add(%d,%d,%d)", i, begin, l), func(w *world) string {
			_, c, err := w.ps.AddData(i, begin, w.good(i, begin, l), 1)
			return fmt.Sprint(c, err != nil)
		}}
	}
	ops := []aop{
		add(0, 0, chunk), add(0, 0, 8*chunk), add(1, 0, 100), add(1, chunk, chunk), add(2, 0, chunk+7),
		{"Fin(0)", func(w *world) string { d, _, err := w.ps.Finalise(0, w.hashes[0]); return fmt.Sprint(d, err != nil) }},
		{"FinBad(0)", func(w *world) string { d, _, err := w.ps.Finalise(0, w.wrongHash(0)); return fmt.Sprint(d, err != nil) }},
		{"Expire(0)", func(w *world) string { return fmt.Sprint(w.ps.Expire(0, nil, func(uint32) {})) }},
		{"Expire(128K)", func(w *world) string { return fmt.Sprint(w.ps.Expire(8*chunk, nil, func(uint32) {})) }},
		{"Del", func(w *world) string { w.ps.Del(); return "" }},
	}
	depth := 4
	nfault := 3 // which of the first nfault mmap calls fail: every subset
	if vh.Thorough() {
		depth = 5
		nfault = 4
	}
	work := 0
	var seq []int
	var rec func()
	run := func(seq []int, mask int) {
		res.Add("schedules", 1)
		res.Add("alloc_fault_histories", 1)
		var fail []int
		for k := 0; k < nfault; k++ {
			if mask&(1<<k) != 0 {
				fail = append(fail, k)
			}
		}
		vunix.Reset(fail...)
		_, liveB0 := vunix.Live()
		w := newWorld(g)
		var names, outs []string
		desc := func() string { return fmt.Sprintf("[ops %v, failing mmap calls %v]", names, fail) }
		rp := map[string]any{"ops": seq, "fail": fail}
		deleted := false
		for _, k := range seq {
			o := ops[k]
			names = append(names, o.name)
			var pan any
			var out string
			func() {
				defer func() { pan = recover() }()
				out = o.run(w)
			}()
			if pan != nil {
				res.Violate("C03/alloc-fault-panic", fmt.Sprintf("%s panicked: %v %s", o.name, pan, desc()), rp)
				break
			}
			outs = append(outs, out)
			if o.name == "Del" {
				deleted = true
			}
			w.problems = nil
			w.checkAccounting("after " + o.name)
			for _, p := range w.problems {
				key, msg, _ := strings.Cut(p, "\x00")
				res.Violate(key, msg+" "+desc(), rp)
			}
			var heap int64
			for i := range w.ps.pieces {
				if d := w.ps.pieces[i].data; d != nil && cap(d) < 128*1024 {
					heap += int64(cap(d))
				}
			}
			_, liveB := vunix.Live()
			if got := alloc.Bytes() - w.base0; got != (liveB-liveB0)+heap {
				res.Violate("C03/accounting/mapped", fmt.Sprintf("alloc.Bytes() reports %d bytes; %d bytes are mapped and %d are on the heap %s", got, liveB-liveB0, heap, desc()), rp)
			}
			if deleted {
				if got := alloc.Bytes() - w.base0; got != 0 {
					res.Violate("C03/leak-after-del", fmt.Sprintf("%d bytes are still accounted after Del %s", got, desc()), rp)
				}
			}
		}
		for _, p := range vunix.Problems() {
			res.Violate("C03/bad-unmap", p+" "+desc(), rp)
		}
		_, nfailed := vunix.Calls()
		w.cleanup()
		if _, liveB := vunix.Live(); liveB != liveB0 {
			res.Violate("C03/mapping-leak", fmt.Sprintf("%d bytes are still mapped after every buffer the store holds was released %s", liveB-liveB0, desc()), rp)
		}
		vunix.Reset()
		nontriv[fmt.Sprintf("%v/%d", outs, nfailed)] = true
	}
	rec = func() {
		if len(seq) > 0 {
			work++
			if vh.Mine(work) {
				for mask := 0; mask < 1<<nfault; mask++ {
					run(seq, mask)
				}
			}
		}
		if len(seq) == depth {
			return
		}
		for k := range ops {
			seq = append(seq, k)
			rec()
			seq = seq[:len(seq)-1]
		}
	}
	rec()
	res.Sample(map[string]any{"ops": []string{"Add(0,0,16384)", "Add(1,0,100)", "Expire(0)", "Del"}, "failing mmap calls": []int{1}})
}
