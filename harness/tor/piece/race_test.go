package piece

// Auxiliary pass (sampling, never decides a property): the same scenario
// bodies as the engine-A store harness, run free on real goroutines with the
// real sync package under the race detector.  A cooperative scheduler's
// hand-offs are happens-before edges that blind the detector, so unsynchronised
// accesses are sought here instead.  Built with -race by the runner.

import (
	"fmt"
	"os"
	"sync"
	"testing"
	"time"

	"github.com/jech/storrent/zzverif/vh"
)

func TestVerifStoreRace(t *testing.T) {
	if os.Getenv("VERIF_OUT") == "" {
		t.Skip("verif harness: run through /verif/run")
	}
	res := vh.NewResult("C01")
	defer func() {
		os.Setenv("VERIF_SHARD", "95/100")
		if err := res.Write(); err != nil {
			t.Error(err)
		}
	}()
	progs := genPrograms(false)
	// the hand-picked programs come first in genPrograms
	n := 0
	deadline := time.Now().Add(60 * time.Second)
	for pi, p := range progs {
		if pi >= 23*2*len(inits) || time.Now().After(deadline) {
			break
		}
		if p.Geom == "mmap" {
			continue
		}
		alpha := alphabet(geoms[p.Geom])
		for it := 0; it < 20; it++ {
			w := newWorld(geoms[p.Geom])
			w.prepare(p.Init)
			var wg sync.WaitGroup
			var mu sync.Mutex
			for ti, ops := range p.Threads {
				wg.Add(1)
				name := fmt.Sprintf("T%d", ti)
				ops := ops
				go func() {
					defer wg.Done()
					defer func() {
						if r := recover(); r != nil {
							mu.Lock()
							res.Note("free-running pass: panic %v in %s", r, p.String())
							mu.Unlock()
						}
					}()
					for _, on := range ops {
						o := alpha[on]
						r := &opRec{thread: name, op: o.name}
						o.run(w, r)
					}
				}()
			}
			wg.Wait()
			w.cleanup()
			n++
		}
	}
	res.Add("auxiliary_race_iterations", int64(n))
	res.Info["auxiliary_race_pass"] = fmt.Sprintf("%d free-running iterations under -race; data races, if any, are printed by the race detector in the worker log and reported as notes", n)
}
