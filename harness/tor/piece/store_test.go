package piece

// Engine-A harness for C01 (only hash-verified data is readable) and C03
// (piece memory accounted / evictable / released): the real Pieces store runs
// under the controlled scheduler (sync, sync/atomic, time and rand of piece.go
// are rewritten to the /verif shims by the overlay), small multi-threaded
// programs over a colliding alphabet are explored exhaustively up to a
// preemption bound, and an oracle judges every execution.

import (
	gosync "sync"
	"bytes"
	"crypto/sha1"
	"errors"
	"fmt"
	"os"
	"sort"
	"strings"
	"testing"
	"time"

	"github.com/jech/storrent/alloc"
	"github.com/jech/storrent/config"
	"github.com/jech/storrent/hash"
	"github.com/jech/storrent/zzverif/sched"
	"github.com/jech/storrent/zzverif/vh"
	"github.com/jech/storrent/zzverif/vrand"
	"github.com/jech/storrent/zzverif/vtime"
)

const chunk = 16 * 1024

// geometry of a test store
type geom struct {
	name   string
	psize  uint32
	length int64
}

var geoms = map[string]geom{
	// piece 0: two full blocks; piece 1: one full block + a 100-byte block
	"short": {"short", 2 * chunk, 2*chunk + chunk + 100},
	// piece 0 is mmap'd (>= 128 KiB), piece 1 lives on the heap
	"mmap": {"mmap", 8 * chunk, 8*chunk + chunk + 7},
}

func truthByte(i int64) byte {
	x := uint64(i)*0x9e3779b97f4a7c15 + 0x1234567
	x ^= x >> 29
	x *= 0xbf58476d1ce4e5b9
	x ^= x >> 32
	return byte(x) | 1 // never zero: a fresh/zeroed buffer can never look valid
}

type world struct {
	g      geom
	ps     *Pieces
	truth  []byte
	hashes []hash.Hash
	base0  int64 // alloc.Bytes() before the store was created

	hmu      gosync.Mutex // harness bookkeeping only (matters in the free-running pass)
	seq      int
	log      []*opRec
	deleted  bool // Del() has returned
	delCall  int  // seq at which Del was called (0 = never)
	samples  []sample
	lastComp []bool
	problems []string
}

type opRec struct {
	thread    string
	op        string
	call, ret int
	// results
	n       int
	err     error
	done    bool
	count   uint32
	comp    bool
	buf     []byte
	off     int64
	dropped []uint32
	dropSeq []int
	ret2    int
}

type sample struct {
	seq  int
	comp []bool
}

func newWorld(g geom) *world {
	w := &world{g: g}
	w.truth = make([]byte, g.length)
	for i := range w.truth {
		w.truth[i] = truthByte(int64(i))
	}
	w.ps = &Pieces{}
	w.ps.MetadataComplete(g.psize, g.length)
	n := w.ps.Num()
	for i := 0; i < n; i++ {
		s, e := w.pieceRange(uint32(i))
		h := sha1.Sum(w.truth[s:e])
		w.hashes = append(w.hashes, hash.Hash(h[:]))
	}
	w.lastComp = make([]bool, n)
	w.base0 = alloc.Bytes()
	return w
}

func (w *world) pieceRange(i uint32) (int64, int64) {
	s := int64(i) * int64(w.g.psize)
	e := s + int64(w.g.psize)
	if e > w.g.length {
		e = w.g.length
	}
	return s, e
}

func (w *world) good(i uint32, begin, l uint32) []byte {
	s, _ := w.pieceRange(i)
	return append([]byte{}, w.truth[s+int64(begin):s+int64(begin)+int64(l)]...)
}

func (w *world) corrupt(i uint32, begin, l uint32) []byte {
	b := w.good(i, begin, l)
	for k := range b {
		b[k] = ^b[k]
	}
	return b
}

func (w *world) wrongHash(i uint32) hash.Hash {
	h := append(hash.Hash{}, w.hashes[i]...)
	h[0] ^= 0xff
	return h
}

// sampleState records which pieces are complete right now; called at every
// scheduling point (serialised, so plain reads are fine) and around reads.
func (w *world) sampleState() {
	w.seq++
	n := len(w.ps.pieces)
	comp := make([]bool, n)
	changed := false
	for i := 0; i < n; i++ {
		comp[i] = w.ps.pieces[i].state == stateComplete
		if comp[i] != w.lastComp[i] {
			changed = true
		}
		if comp[i] && !w.lastComp[i] {
			// just became complete: it must hold exactly the true content
			s, e := w.pieceRange(uint32(i))
			if !bytes.Equal(w.ps.pieces[i].data, w.truth[s:e]) {
				w.problem("C01/complete-unverified", "piece %d became complete with content that differs from the true content", i)
			}
		}
	}
	if changed || len(w.samples) == 0 {
		w.samples = append(w.samples, sample{w.seq, comp})
		copy(w.lastComp, comp)
	}
	// accounting invariant, whenever nobody is inside a write-locked section
	wr, _ := w.ps.mu.ModelState()
	if !wr {
		w.checkAccounting("at a lock-free point")
	}
}

func (w *world) problem(key, format string, a ...any) {
	w.problems = append(w.problems, key+"\x00"+fmt.Sprintf(format, a...))
}

func (w *world) checkAccounting(when string) {
	var bytesHeld int64
	cnt := 0
	for i := range w.ps.pieces {
		p := &w.ps.pieces[i]
		if p.data != nil {
			bytesHeld += int64(cap(p.data))
			cnt++
		} else {
			if p.state != 0 {
				w.problem("C03/state-without-buffer", "piece %d has state %d but no buffer (%s)", i, p.state, when)
			}
			if p.bitmap != nil && !p.bitmap.Empty() {
				w.problem("C03/bitmap-without-buffer", "piece %d has blocks marked present but no buffer (%s)", i, when)
			}
		}
	}
	if got := alloc.Bytes() - w.base0; got != bytesHeld {
		w.problem("C03/accounting", "alloc.Bytes() reports %d bytes but the store holds %d bytes of buffers (%s)", got, bytesHeld, when)
	}
	if w.ps.count != cnt {
		w.problem("C03/count", "Pieces.count=%d but %d pieces hold a buffer (%s)", w.ps.count, cnt, when)
	}
}

func (w *world) completeDuring(i int, from, to int) bool {
	// state at 'from' is the last sample with seq <= from
	idx := sort.Search(len(w.samples), func(k int) bool { return w.samples[k].seq > from }) - 1
	if idx < 0 {
		idx = 0
	}
	for k := idx; k < len(w.samples) && w.samples[k].seq <= to; k++ {
		if w.samples[k].comp[i] {
			return true
		}
	}
	return false
}

// --- operations -----------------------------------------------------------

type op struct {
	name string
	run  func(w *world, r *opRec)
}

// The clock (w.seq) advances at every sample, i.e. at every scheduling point
// and at every operation boundary, so an operation's [call, ret] interval
// contains exactly the samples taken while it was in progress.
func (w *world) exec(thread string, o op) {
	r := &opRec{thread: thread, op: o.name}
	w.log = append(w.log, r)
	if sched.Controlled() {
		sched.Quiet(w.sampleState)
	} else {
		w.seq++
	}
	r.call = w.seq
	o.run(w, r)
	if sched.Controlled() {
		sched.Quiet(w.sampleState)
	} else {
		w.seq++
	}
	r.ret = w.seq
}

func opAdd(name string, i, begin uint32, data func(w *world) []byte) op {
	return op{name, func(w *world, r *opRec) {
		d := data(w)
		r.count, r.comp, r.err = w.ps.AddData(i, begin, d, 7)
	}}
}

func opFin(name string, i uint32, right bool) op {
	return op{name, func(w *world, r *opRec) {
		h := w.hashes[i]
		if !right {
			h = w.wrongHash(i)
		}
		r.done, _, r.err = w.ps.Finalise(i, h)
		if r.done && !right {
			w.problem("C01/finalise-wrong-hash", "Finalise(%d) reported done against a wrong hash", i)
		}
	}}
}

func opRead(name string, off int64, l int) op {
	return op{name, func(w *world, r *opRec) {
		buf := make([]byte, l)
		r.off = off
		r.n, r.err = w.ps.ReadAt(buf, off)
		if r.n > 0 && r.n <= l {
			r.buf = buf[:r.n]
		}
		if r.n > l || r.n < 0 {
			w.problem("C01/read-count", "ReadAt returned n=%d for a %d-byte buffer", r.n, l)
		}
	}}
}

func opExpire(name string, target int64) op {
	return op{name, func(w *world, r *opRec) {
		r.n = w.ps.Expire(target, nil, func(index uint32) {
			r.dropped = append(r.dropped, index)
			r.dropSeq = append(r.dropSeq, w.seq)
		})
	}}
}

func opDel() op {
	return op{"Del", func(w *world, r *opRec) {
		w.hmu.Lock()
		if w.delCall == 0 {
			w.delCall = r.call
		}
		w.hmu.Unlock()
		w.ps.Del()
		w.hmu.Lock()
		w.deleted = true
		w.hmu.Unlock()
	}}
}

func opMisc(name string, i uint32) op {
	return op{name, func(w *world, r *opRec) {
		w.ps.Bitmap()
		w.ps.PieceBitmap(i)
		w.ps.Hole(i, 0)
		w.ps.UpdateTime(i)
		w.ps.Count()
		w.ps.Bytes()
		w.ps.All()
		w.ps.PieceEmpty(i)
	}}
}

// the alphabet; every operation collides on piece 0 (two blocks) unless noted
func alphabet(g geom) map[string]op {
	ps := g.psize
	m := map[string]op{}
	add := func(o op) { m[o.name] = o }
	add(opAdd("A0g", 0, 0, func(w *world) []byte { return w.good(0, 0, chunk) }))
	add(opAdd("A1g", 0, chunk, func(w *world) []byte { return w.good(0, chunk, chunk) }))
	add(opAdd("A0c", 0, 0, func(w *world) []byte { return w.corrupt(0, 0, chunk) }))
	add(opAdd("A1c", 0, chunk, func(w *world) []byte { return w.corrupt(0, chunk, chunk) }))
	add(opAdd("A01g", 0, 0, func(w *world) []byte { return w.good(0, 0, 2*chunk) }))
	add(opAdd("Aallg", 0, 0, func(w *world) []byte { return w.good(0, 0, ps) }))
	add(opAdd("Aallc", 0, 0, func(w *world) []byte { return w.corrupt(0, 0, ps) }))
	add(opAdd("Aodd", 0, 100, func(w *world) []byte { return w.good(0, 0, chunk) }))
	add(opAdd("Abeyond", 0, ps, func(w *world) []byte { return w.good(0, 0, chunk) }))
	add(opAdd("Along", 0, ps-chunk, func(w *world) []byte { return append(w.good(0, ps-chunk, chunk), w.good(0, 0, chunk)...) }))
	add(opAdd("Ashort", 0, 0, func(w *world) []byte { return w.good(0, 0, chunk-1) }))
	// piece 1: the torrent's short last piece / short last block
	l1 := uint32(g.length - int64(ps))
	add(opAdd("B0g", 1, 0, func(w *world) []byte { return w.good(1, 0, chunk) }))
	add(opAdd("B1g", 1, chunk, func(w *world) []byte { return w.good(1, chunk, l1-chunk) }))
	add(opAdd("B1long", 1, chunk, func(w *world) []byte { return append(w.good(1, chunk, l1-chunk), 9, 9, 9) }))
	add(opAdd("Ballg", 1, 0, func(w *world) []byte { return w.good(1, 0, l1) }))
	add(opFin("F+", 0, true))
	add(opFin("F-", 0, false))
	add(opFin("G+", 1, true))
	add(opRead("R0", 0, 100))
	add(opRead("Rmid", chunk-50, 100))
	add(opRead("Rend", int64(ps)-10, 100)) // must not cross into piece 1
	add(opRead("Rbig", 0, int(ps)+5))
	add(opRead("R1", int64(ps)+chunk, 200)) // the short last block
	add(opRead("Reof", g.length, 10))
	add(opExpire("E0", 0))
	add(opExpire("E1p", int64(ps))) // keep one piece
	add(opDel())
	add(opMisc("M", 0))
	return m
}

// initial stores (non-initial starting states)
var inits = []string{"empty", "half", "full", "fullbad", "complete", "both", "full1", "c0full1"}

func (w *world) prepare(init string) {
	ps := w.g.psize
	switch init {
	case "empty":
	case "half":
		w.ps.AddData(0, 0, w.good(0, 0, chunk), 3)
	case "full":
		w.ps.AddData(0, 0, w.good(0, 0, ps), 3)
	case "fullbad":
		w.ps.AddData(0, 0, w.good(0, 0, chunk), 3)
		w.ps.AddData(0, chunk, w.corrupt(0, chunk, ps-chunk), 4)
	case "complete":
		w.ps.AddData(0, 0, w.good(0, 0, ps), 3)
		if done, _, err := w.ps.Finalise(0, w.hashes[0]); !done || err != nil {
			panic("prepare: Finalise failed")
		}
	case "both":
		w.ps.AddData(0, 0, w.good(0, 0, ps), 3)
		w.ps.Finalise(0, w.hashes[0])
		l1 := uint32(w.g.length - int64(ps))
		w.ps.AddData(1, 0, w.good(1, 0, l1), 3)
		w.ps.Finalise(1, w.hashes[1])
	case "full1":
		// piece 1 (the short last piece) is full but not yet hashed
		l1 := uint32(w.g.length - int64(ps))
		w.ps.AddData(1, 0, w.good(1, 0, l1), 3)
	case "c0full1":
		w.ps.AddData(0, 0, w.good(0, 0, ps), 3)
		w.ps.Finalise(0, w.hashes[0])
		l1 := uint32(w.g.length - int64(ps))
		w.ps.AddData(1, 0, w.good(1, 0, l1), 3)
	default:
		panic("unknown init " + init)
	}
	for i := range w.lastComp {
		w.lastComp[i] = w.ps.pieces[i].state == stateComplete
	}
	w.samples = append(w.samples, sample{0, append([]bool{}, w.lastComp...)})
}

// program = geometry, initial store, and one op list per thread
type program struct {
	Geom    string     `json:"geom"`
	Init    string     `json:"init"`
	Threads [][]string `json:"threads"`
}

func (p program) String() string {
	var parts []string
	for _, t := range p.Threads {
		parts = append(parts, strings.Join(t, ","))
	}
	return fmt.Sprintf("%s/%s[%s]", p.Geom, p.Init, strings.Join(parts, " | "))
}

// instantiate builds a sched.Program for p.  The returned *world pointer is
// refreshed for every execution.
func instantiate(p program, last **world) sched.Program {
	g := geoms[p.Geom]
	alpha := alphabet(g)
	return func(s *sched.S) func(bool) string {
		vtime.SetVirtual(10 * time.Second)
		vrand.SetPermMode(1)
		w := newWorld(g)
		*last = w
		w.prepare(p.Init)
		for ti, ops := range p.Threads {
			name := fmt.Sprintf("T%d", ti)
			ops := ops
			s.Go(name, func() {
				for _, on := range ops {
					o, ok := alpha[on]
					if !ok {
						panic("unknown op " + on)
					}
					w.exec(name, o)
				}
			})
		}
		s.KeyFn = w.key
		s.OnStep = w.sampleState
		return func(complete bool) string {
			msg := w.judge(complete, s.Failure != "" && !s.Pruned)
			// release whatever the store still holds so that executions do
			// not contaminate each other through alloc's global counter
			w.cleanup()
			return msg
		}
	}
}

func (w *world) cleanup() {
	for i := range w.ps.pieces {
		if w.ps.pieces[i].data != nil {
			alloc.Free(w.ps.pieces[i].data)
			w.ps.pieces[i].data = nil
		}
	}
}

// key is the canonical dump of the shared state used for state-key pruning.
func (w *world) key() string {
	var sb strings.Builder
	wr, rd := w.ps.mu.ModelState()
	if wr {
		// a writer is inside the store: buffers may be half-updated (or
		// already unmapped); do not try to merge such states
		return ""
	}
	fmt.Fprintf(&sb, "d=%v c=%d w=%v r=%d a=%d", w.ps.deleted, w.ps.count, wr, rd, alloc.Bytes()-w.base0)
	for i := range w.ps.pieces {
		p := &w.ps.pieces[i]
		h := sha1.Sum(p.data)
		fmt.Fprintf(&sb, "|%d:%v:%x:%x:%v", p.state, p.data == nil, h[:6], []byte(p.bitmap), p.peers)
	}
	// the harness log is thread-local state the oracle depends on
	for _, r := range w.log {
		fmt.Fprintf(&sb, "|%s.%s.%v.%d.%v.%v.%v", r.thread, r.op, r.ret != 0, r.n, r.err, r.done, r.dropped)
	}
	return sb.String()
}

// judge evaluates the C01 and C03 oracles on one execution.  Problems are
// returned as "key\x00message" joined by "\x01".
func (w *world) judge(complete bool, failed bool) string {
	if failed {
		return ""
	}
	for _, r := range w.log {
		if r.ret == 0 {
			continue // did not return (pruned execution)
		}
		switch {
		case strings.HasPrefix(r.op, "R"):
			if r.off >= w.g.length {
				if r.n != 0 {
					w.problem("C01/read-past-end", "%s returned %d bytes at offset %d >= length", r.op, r.n, r.off)
				}
				continue
			}
			if r.n == 0 {
				continue
			}
			i := uint32(r.off / int64(w.g.psize))
			_, e := w.pieceRange(i)
			if r.off+int64(r.n) > e {
				w.problem("C01/read-crosses-piece", "%s at %d returned %d bytes, crossing the end of piece %d (%d)", r.op, r.off, r.n, i, e)
				continue
			}
			if !bytes.Equal(r.buf, w.truth[r.off:r.off+int64(r.n)]) {
				w.problem("C01/read-wrong-bytes", "%s at %d returned %d bytes that differ from the true content", r.op, r.off, r.n)
			}
			if !w.completeDuring(int(i), r.call, r.ret) {
				w.problem("C01/read-unverified", "%s at %d returned %d bytes although piece %d was at no point hash-verified during the call", r.op, r.off, r.n, i)
			}
		case strings.HasPrefix(r.op, "A") || strings.HasPrefix(r.op, "B"):
			if w.delCall != 0 && r.call > w.delRet() && w.delRet() > 0 {
				if r.err == nil && r.count > 0 {
					w.problem("C03/add-after-del", "%s stored %d bytes after Del() had returned", r.op, r.count)
				}
			}
		case strings.HasPrefix(r.op, "E"):
			if r.n < len(r.dropped) {
				w.problem("C03/expire-count", "Expire returned %d but reported %d complete pieces dropped", r.n, len(r.dropped))
			}
			seen := map[uint32]bool{}
			for _, d := range r.dropped {
				if seen[d] {
					w.problem("C03/expire-callback-twice", "Expire reported piece %d twice", d)
				}
				seen[d] = true
			}
		}
	}
	if complete {
		w.checkAccounting("after all threads finished")
		if w.deleted {
			if got := alloc.Bytes() - w.base0; got != 0 {
				w.problem("C03/leak-after-del", "%d bytes still allocated after Del() returned and every thread finished", got)
			}
			// nothing can be added any more
			n, _, err := w.ps.AddData(0, 0, w.good(0, 0, chunk), 1)
			if n != 0 || !errors.Is(err, ErrDeleted) {
				w.problem("C03/add-after-del", "AddData after Del() returned n=%d err=%v", n, err)
			}
			buf := make([]byte, 10)
			if n, _ := w.ps.ReadAt(buf, 0); n != 0 {
				w.problem("C01/read-after-del", "ReadAt returned %d bytes of a deleted store", n)
			}
		}
		// a final sequential read of everything: only verified content
		for i := 0; i < w.ps.Num(); i++ {
			s, e := w.pieceRange(uint32(i))
			buf := make([]byte, e-s+10)
			n, _ := w.ps.ReadAt(buf, s)
			comp := w.ps.pieces[i].state == stateComplete
			if n > 0 && (!comp || int64(n) != e-s || !bytes.Equal(buf[:n], w.truth[s:e])) {
				w.problem("C01/final-read", "final ReadAt of piece %d returned %d bytes (complete=%v)", i, n, comp)
			}
			if comp && int64(n) != e-s {
				w.problem("C01/complete-unreadable", "piece %d is complete but ReadAt returned %d of %d bytes", i, n, e-s)
			}
		}
	}
	if len(w.problems) == 0 {
		return ""
	}
	return strings.Join(w.problems, "\x01")
}

func (w *world) delRet() int {
	for _, r := range w.log {
		if r.op == "Del" {
			return r.ret
		}
	}
	return 0
}

// outcome classifies an execution for the distinct-outcome count.
func (w *world) outcome() string {
	var sb strings.Builder
	for _, r := range w.log {
		fmt.Fprintf(&sb, "%s:%d/%v/%v/%v;", r.op, r.n, r.err != nil, r.done, len(r.dropped))
	}
	for i := range w.ps.pieces {
		fmt.Fprintf(&sb, "%d", w.ps.pieces[i].state)
	}
	return sb.String()
}

// ---------------------------------------------------------------------------

func classify(msg string) (key, text string) {
	switch {
	case strings.HasPrefix(msg, "panic in thread"):
		l := strings.SplitN(msg, "\n", 2)[0]
		k := l[strings.Index(l, ": ")+2:]
		return "panic/" + k, msg
	case strings.HasPrefix(msg, "deadlock"):
		return "deadlock", msg
	case strings.HasPrefix(msg, "livelock"):
		return "livelock", msg
	case strings.HasPrefix(msg, "horizon"):
		return "horizon", msg
	case strings.HasPrefix(msg, "REPLAY-DIVERGENCE"):
		return "harness/replay-divergence", msg
	}
	first := strings.SplitN(msg, "\x01", 2)[0]
	k, t, _ := strings.Cut(first, "\x00")
	return k, t
}

func propOf(key string) string {
	if strings.HasPrefix(key, "C01/") {
		return "C01"
	}
	return "C03" // crashes, deadlocks and accounting belong to the memory manager
}

type replay struct {
	Engine  string  `json:"engine"`
	Program program `json:"program"`
	Choices []int   `json:"choices"`
}

func genPrograms(thorough bool) []program {
	var out []program
	// (a) hand-picked programs aimed at the places where the lock is dropped
	hand := [][][]string{
		{{"F+"}, {"A0g"}, {"R0"}},
		{{"F-"}, {"R0"}, {"E0"}},
		{{"F+"}, {"Del"}, {"A0g"}},
		{{"F-"}, {"Del"}, {"A0g"}},
		{{"F+"}, {"F+"}, {"R0"}},
		{{"F+"}, {"F-"}, {"R0"}},
		{{"Del"}, {"E0"}, {"R0"}},
		{{"F-", "Aallg", "F+"}, {"R0", "R0"}},
		{{"F-"}, {"Aallg", "F+"}, {"R0"}},
		{{"F+"}, {"E0"}, {"Rmid"}},
		{{"F+", "E0"}, {"Aallg", "F+"}, {"Rbig"}},
		{{"G+"}, {"Del"}, {"B0g"}},
		{{"Ballg", "G+"}, {"R1"}, {"E0"}},
		{{"B0g", "B1g", "G+"}, {"R1", "R1"}},
		{{"B0g", "B1long", "G+"}, {"R1"}},
		{{"F+"}, {"Del"}, {"Ballg"}},
		{{"F-"}, {"Del"}, {"M"}},
		{{"Aallc", "F+"}, {"R0"}, {"Aallg"}},
		{{"F+"}, {"E1p"}, {"Ballg", "G+"}},
		{{"A0g", "A1g", "F+"}, {"A0c", "A1c", "F+"}, {"R0", "Rmid"}},
		{{"Del"}, {"Del"}, {"F+"}},
		{{"E0"}, {"E0"}, {"F+"}},
		{{"Along"}, {"Aodd", "Abeyond", "Ashort"}, {"F+", "R0"}},
		{{"G+"}, {"Del"}, {"A0g"}},
		{{"G+"}, {"Del"}, {"Aallg", "F+"}},
		{{"G+"}, {"E0"}, {"R0", "R1"}},
		{{"G+"}, {"Del"}, {"R0", "R1"}},
	}
	for _, g := range []string{"short", "mmap"} {
		for _, in := range inits {
			for _, h := range hand {
				out = append(out, program{g, in, h})
			}
		}
	}
	// (b) systematic: 3 threads x 1 op and 2 threads x <=2 ops over a reduced alphabet
	red := []string{"A0g", "A1c", "Aallg", "F+", "F-", "R0", "Rmid", "E0", "Del", "Ballg", "G+", "R1"}
	red2 := []string{"A1g", "Aallg", "A1c", "F+", "F-", "R0", "E0", "Del"}
	if thorough {
		red2 = red
	}
	for _, in := range inits {
		for a := 0; a < len(red); a++ {
			for b := a; b < len(red); b++ {
				for c := b; c < len(red); c++ {
					out = append(out, program{"short", in, [][]string{{red[a]}, {red[b]}, {red[c]}}})
				}
			}
		}
		var seqs [][]string
		for _, x := range red2 {
			seqs = append(seqs, []string{x})
		}
		for _, x := range red2 {
			for _, y := range red2 {
				seqs = append(seqs, []string{x, y})
			}
		}
		for a := 0; a < len(seqs); a++ {
			for b := a; b < len(seqs); b++ {
				out = append(out, program{"short", in, [][]string{seqs[a], seqs[b]}})
			}
		}
	}
	return out
}

func TestVerifStore(t *testing.T) {
	if os.Getenv("VERIF_OUT") == "" && vh.ReplayFile() == "" {
		t.Skip("verif harness: run through /verif/run")
	}
	_ = config.ChunkSize
	res := map[string]*vh.Result{"C01": vh.NewResult("C01"), "C03": vh.NewResult("C03")}
	defer func() {
		for _, r := range res {
			if err := r.Write(); err != nil {
				t.Errorf("writing result: %v", err)
			}
		}
	}()

	if vh.ReplayFile() != "" {
		var rp replay
		if err := vh.LoadReplay(&rp); err != nil {
			t.Fatal(err)
		}
		var w *world
		var trace []string
		prog := instantiate(rp.Program, &w)
		s := sched.New(rp.Choices)
		s.Trace = &trace
		check := prog(s)
		s.Run()
		msg := s.Failure
		if msg == "" {
			msg = check(true)
		}
		fmt.Printf("program: %v\nchoices: %v\n", rp.Program, rp.Choices)
		for _, l := range trace {
			fmt.Println("  ", l)
		}
		for _, r := range w.log {
			fmt.Printf("  op %s.%s call=%d ret=%d n=%d err=%v done=%v count=%d dropped=%v\n", r.thread, r.op, r.call, r.ret, r.n, r.err, r.done, r.count, r.dropped)
		}
		if msg != "" {
			k, txt := classify(msg)
			fmt.Printf("RESULT: violation %s: %s\n", k, txt)
			res[propOf(k)].Violate(k, txt, rp)
		} else {
			fmt.Println("RESULT: property held on this execution")
		}
		return
	}

	progs := genPrograms(vh.Thorough())
	bound := 2
	if vh.Thorough() {
		bound = 3
	}
	deadline := vh.Deadline()
	nprog := 0
	for pi, p := range progs {
		if !vh.Mine(pi) {
			continue
		}
		if time.Now().After(deadline) {
			for _, r := range res {
				r.NotExhaustive(fmt.Sprintf("deadline reached after %d of this shard's programs", nprog))
			}
			break
		}
		nprog++
		// a use-after-free of an mmap'd buffer kills the process: leave a note
		// for the runner saying which program was running
		for id := range res {
			vh.CheckpointKey(id, "crash/store", replay{"sched", p, nil})
		}
		var w *world
		prog := instantiate(p, &w)
		unbounded := vh.Thorough() && len(p.Threads) == 2
		o := sched.Options{Bound: bound, Deadline: deadline, MaxViolations: 1, MaxSteps: 5000,
			Outcome: func() string { return w.outcome() }}
		if unbounded {
			o.Bound = -1
			o.Prune = true
		}
		st := sched.Explore(prog, o)
		for _, r := range res {
			r.Add("programs", 1)
			r.Add("schedules", int64(st.Schedules))
			r.Add("transitions", int64(st.Steps))
			r.Add("states", int64(st.Points))
			r.Add("traces_validated_against_impl", int64(st.Schedules))
			r.Add("pruned", int64(st.Pruned))
			r.SetMax("max_choice_points", int64(st.MaxPoints))
			r.SetMax("preemption_bound_completed", int64(bound))
			if unbounded {
				r.Add("programs_unbounded", 1)
			}
			for oc := range st.Outcomes {
				r.Distinct("outcomes", oc)
			}
			if len(st.Outcomes) > 1 {
				r.Add("programs_with_several_outcomes", 1)
			}
			if !st.Exhaustive {
				r.NotExhaustive("deadline inside program " + p.String())
			}
			if pi%997 == 0 || nprog == 1 {
				r.Sample(map[string]any{"program": p.String(), "schedules": st.Schedules, "outcomes": len(st.Outcomes)})
			}
		}
		for _, v := range st.Violations {
			k, txt := classify(v.Message)
			rp := replay{"sched", p, v.Choices}
			// re-execute 5 times: it must fail identically every time
			same := true
			for i := 0; i < 5; i++ {
				var w2 *world
				_, m2 := sched.RunOnce(instantiate(p, &w2), v.Choices, nil, 5000)
				k2, _ := classify(m2)
				if k2 != k {
					same = false
				}
			}
			if !same || k == "harness/replay-divergence" {
				t.Errorf("HARNESS NONDETERMINISM: %s on %v choices %v: %s", k, p, v.Choices, txt)
				continue
			}
			where := fmt.Sprintf("  [program %s, schedule %v]", p.String(), v.Choices)
			if !strings.Contains(v.Message, "\x00") {
				// panic / deadlock / livelock / horizon: the store crashed or
				// hung; that is a violation of both properties' "never
				// crashes / process survival" clauses
				res["C03"].Violate(k, txt+where, rp)
				res["C01"].Violate(k, txt+where, rp)
				continue
			}
			// every problem of the execution is attributed to its own property
			for _, pr := range strings.Split(v.Message, "\x01") {
				pk, pt, _ := strings.Cut(pr, "\x00")
				res[propOf(pk)].Violate(pk, pt+where, rp)
			}
		}
	}
	for id := range res {
		vh.ClearCheckpoint(id)
	}
	vtime.ClearVirtual()
	vrand.Unfix()
}
