package tor

// C08 (client decision logic): all 64 x 64 option pairs through the real
// tor.DialClient (first attempt, fallback redial) against the real
// protocol.ServerHandshake, with a scripted dialer (net in initial.go is
// rewritten to vnet) and the raw bytes of every dialled connection recorded.

import (
	"bytes"
	"context"
	"fmt"
	"io"
	"net"
	"net/netip"
	"os"
	"sync"
	"testing"
	"testing/synctest"
	"time"

	"github.com/jech/storrent/config"
	"github.com/jech/storrent/crypto"
	"github.com/jech/storrent/hash"
	"github.com/jech/storrent/peer"
	"github.com/jech/storrent/protocol"
	"github.com/jech/storrent/zzverif/vh"
	"github.com/jech/storrent/zzverif/vnet"
	"github.com/jech/storrent/zzverif/vrand"
)

func optsFromBitsT(b int) crypto.Options {
	return crypto.Options{
		AllowCryptoHandshake: b&1 != 0, PreferCryptoHandshake: b&2 != 0, ForceCryptoHandshake: b&4 != 0,
		AllowEncryption: b&8 != 0, PreferEncryption: b&16 != 0, ForceEncryption: b&32 != 0,
	}
}

// recConn records what the client writes.
type recConn struct {
	net.Conn
	mu  *sync.Mutex
	buf *bytes.Buffer
}

func (c recConn) Write(p []byte) (int, error) {
	c.mu.Lock()
	c.buf.Write(p)
	c.mu.Unlock()
	return c.Conn.Write(p)
}

type dialOutcome struct {
	problems []problem
	attempts int
	up       bool
	enc      bool
}

func runDial(t *testing.T, cb, sb int) (out dialOutcome) {
	prob := func(key, format string, a ...any) {
		out.problems = append(out.problems, problem{"C08", key, fmt.Sprintf(format, a...)})
	}
	synctest.Test(t, func(t *testing.T) {
		vrand.Fix(21)
		defer vrand.Unfix()
		peer.VerifReset()
		config.DefaultDhtMode = config.DhtNone
		config.DefaultUseTrackers = false
		config.DefaultUseWebseeds = false
		config.SetIdleRate(0)
		config.MemoryMark = 1 << 30
		g := wgeoms["g2x2"]
		truth := make([]byte, g.Length)
		for i := range truth {
			truth[i] = wtruthByte(int64(i))
		}
		info := buildInfo(g, truth, "dial", 0)
		tt, err := ReadTorrent("", bytes.NewReader(wrapInfo(info)))
		if err != nil {
			panic(err)
		}
		tt.Log = discardLog
		tor, err := AddTorrent(context.Background(), tt)
		if err != nil {
			panic(err)
		}
		copts, sopts := optsFromBitsT(cb), optsFromBitsT(sb)
		var mu sync.Mutex
		type attempt struct {
			raw      *bytes.Buffer
			srvOK    bool
			srvEnc   bool
			srvPlain bool // the server saw a plaintext handshake
			sconn    net.Conn
		}
		var attempts []*attempt
		sid := hash.Hash([]byte("-SV0001-server000001"))
		vnet.SetDialHook(func(ctx context.Context, network, address string) (net.Conn, error) {
			a, b := net.Pipe()
			at := &attempt{raw: &bytes.Buffer{}}
			mu.Lock()
			attempts = append(attempts, at)
			mu.Unlock()
			go func() {
				so := sopts
				conn, _, _, err := protocol.ServerHandshake(b, []hash.HashPair{{First: tor.Hash, Second: sid}}, &so)
				mu.Lock()
				at.srvOK = err == nil
				if err == nil {
					_, at.srvEnc = conn.(*crypto.Conn)
					at.sconn = conn
				}
				mu.Unlock()
				if err != nil {
					b.Close()
					return
				}
				io.Copy(io.Discard, conn)
			}()
			return recConn{a, &mu, at.raw}, nil
		})
		defer vnet.SetDialHook(nil)
		var derr error
		var pan any
		done := make(chan struct{})
		go func() {
			defer close(done)
			defer func() { pan = recover() }()
			co := copts
			derr = DialClient(context.Background(), tor, netip.MustParseAddrPort("21.0.0.1:7777"), &co)
		}()
		synctest.Wait()
		// (less than the 5 s after which the torrent's own maybeConnect would
		// start dialling the peer it has just learnt about, with the global options)
		time.Sleep(2 * time.Second)
		synctest.Wait()
		select {
		case <-done:
		default:
			prob("C08/dial-hangs", "DialClient did not return (client %06b server %06b)", cb, sb)
		}
		if pan != nil {
			prob("C08/dial-panic", "DialClient panicked: %v (client %06b server %06b)", pan, cb, sb)
		}
		peers, _ := tor.GetPeers()
		mu.Lock()
		out.attempts = len(attempts)
		where := fmt.Sprintf("[client options %s, server options %s]", optStr(copts), optStr(sopts))
		hdr := append([]byte{19}, "BitTorrent protocol"...)
		for i, at := range attempts {
			if os.Getenv("VERIF_DBG") != "" {
				fmt.Printf("attempt %d: %d bytes written, first %x, server ok=%v enc=%v; DialClient err=%v\n", i+1, at.raw.Len(), at.raw.Bytes()[:min(8, at.raw.Len())], at.srvOK, at.srvEnc, derr)
			}
			plain := bytes.HasPrefix(at.raw.Bytes(), hdr)
			if plain && copts.ForceCryptoHandshake {
				prob("C08/dial/plain-handshake-although-forced", "attempt %d: the client started a plaintext handshake although its policy forces the crypto handshake %s", i+1, where)
			}
			if plain && copts.ForceEncryption {
				prob("C08/dial/plain-handshake-although-encryption-forced", "attempt %d: the client started a plaintext handshake although its policy forces encryption %s", i+1, where)
			}
			if !plain && at.raw.Len() > 0 && !copts.AllowCryptoHandshake {
				prob("C08/dial/mse-handshake-not-allowed", "attempt %d: the client started an MSE handshake its policy does not allow %s", i+1, where)
			}
		}
		if len(peers) > 0 && derr == nil {
			out.up = true
			enc := peers[0].Encrypted()
			out.enc = enc
			last := attempts[len(attempts)-1]
			if !last.srvOK {
				prob("C08/dial/half-open", "the client added a peer although the server's handshake failed %s", where)
			} else {
				if enc != last.srvEnc {
					prob("C08/dial/mode-disagreement", "client encrypted=%v, server encrypted=%v %s", enc, last.srvEnc, where)
				}
				for who, o := range map[string]crypto.Options{"client": copts, "server": sopts} {
					if enc && !o.AllowEncryption {
						prob("C08/dial/rc4-not-allowed/"+who, "an RC4 connection was established although the %s does not allow encryption %s", who, where)
					}
					if !enc && o.ForceEncryption {
						prob("C08/dial/plaintext-although-forced/"+who, "a plaintext connection was established although the %s forces encryption %s", who, where)
					}
				}
			}
		}
		if len(peers) > 1 {
			prob("C08/dial/two-peers", "one DialClient call left %d peers %s", len(peers), where)
		}
		mu.Unlock()
		tor.Kill(context.Background())
		synctest.Wait()
		time.Sleep(time.Hour)
		synctest.Wait()
		del(tor.Hash)
	})
	return
}

func optStr(o crypto.Options) string {
	s := ""
	for i, v := range []bool{o.AllowCryptoHandshake, o.PreferCryptoHandshake, o.ForceCryptoHandshake, o.AllowEncryption, o.PreferEncryption, o.ForceEncryption} {
		if v {
			s += []string{"aH", "pH", "fH", "aE", "pE", "fE"}[i]
		}
	}
	if s == "" {
		return "-"
	}
	return s
}

func TestVerifC08Dial(t *testing.T) {
	if os.Getenv("VERIF_OUT") == "" {
		t.Skip("verif harness: run through /verif/run")
	}
	res := vh.NewResult("C08")
	nontriv := map[string]bool{}
	defer func() {
		res.Add("distinct_nontrivial", int64(len(nontriv)))
		i, _ := vh.Shard()
		os.Setenv("VERIF_SHARD", fmt.Sprintf("%d/100", 30+i))
		if err := res.Write(); err != nil {
			t.Error(err)
		}
	}()
	n := 0
	for c := 0; c < 64; c++ {
		for s := 0; s < 64; s++ {
			n++
			if !vh.Mine(n) {
				continue
			}
			stop := vh.Guard("C08", "C08/dial", map[string]int{"client": c, "server": s}, 120*time.Second)
			o := runDial(t, c, s)
			stop()
			res.Add("evaluations", 1)
			res.Add("dial_cells", 1)
			if o.up {
				res.Add("dial_established", 1)
			}
			for _, p := range o.problems {
				res.Violate(p.Key, p.Msg, map[string]int{"client": c, "server": s})
			}
			nontriv[fmt.Sprintf("dial/%d/%v/%v", o.attempts, o.up, o.enc)] = true
		}
	}
	res.Sample(map[string]any{"DialClient": "client pHaHaE vs server aHaE", "attempts": 1})
}
