package tor

// C02: a Reader is an exact, live view of its byte range.  Real
// AddTorrent/run() in a bubble; the harness is an honest, unchoking seed that
// answers every request with the true block (an optional second peer answers
// with corrupt data).  Exhaustive operation sequences over boundary windows,
// with evictions, cancellation and deletion between operations.

import (
	"runtime"
	"bufio"
	"bytes"
	"context"
	"crypto/sha1"
	"encoding/binary"
	"fmt"
	"io"
	"net"
	"net/netip"
	"os"
	"strings"
	"sync"
	"testing"
	"testing/synctest"
	"time"

	"github.com/jech/storrent/config"
	"github.com/jech/storrent/hash"
	"github.com/jech/storrent/peer"
	"github.com/jech/storrent/protocol"
	rc "github.com/jech/storrent/zzverif/refcodec"
	"github.com/jech/storrent/zzverif/vh"
	"github.com/jech/storrent/zzverif/vrand"
)

type readScenario struct {
	Off, Len int64
	Prefill  bool     `json:"prefill"` // every piece verified in the store at the start
	Seed     bool     `json:"seed"`    // an honest seed is connected
	Corrupt  bool     `json:"corrupt"` // a second peer that answers with corrupt data
	Huge     bool     `json:"huge,omitempty"` // the 4 GiB + 3 MiB + 5 torrent; only its last six pieces exist (prefilled)
	Absent   int      `json:"absent,omitempty"` // huge only: this many trailing pieces are not stored, the seed has to supply them
	Ops      []string `json:"ops"`
}

// The huge geometry: 1 MiB pieces, 4 GiB + 3 MiB + 5 bytes.  Positions beyond 4 GiB do
// not fit 32 bits and neither does (piece index x piece size).  The content is the
// same formula as everywhere (wtruthByte); only the pieces from hugeFirst on are
// hashed for real and stored, every window lies inside them.
var ghuge = wgeom{"ghuge", 1 << 20, 4<<30 + 3<<20 + 5}

const hugeFirst = 4094

var hugeInfo []byte
var hugePieces = map[uint32][]byte{}

func hugeTruth(off int64, n int) []byte {
	b := make([]byte, n)
	for i := range b {
		b[i] = wtruthByte(off + int64(i))
	}
	return b
}

func hugeSetup() []byte {
	if hugeInfo != nil {
		return hugeInfo
	}
	var pieces []byte
	for i := 0; i < ghuge.npieces(); i++ {
		var h [20]byte
		if i >= hugeFirst {
			d := hugeTruth(int64(i)*int64(ghuge.PSize), int(ghuge.pieceLen(uint32(i))))
			hugePieces[uint32(i)] = d
			h = sha1.Sum(d)
		} else {
			h[0], h[1], h[2] = byte(i), byte(i>>8), 0x5a
		}
		pieces = append(pieces, h[:]...)
	}
	d := &rc.Dict{}
	d.Set("length", ghuge.Length)
	d.Set("name", "huge")
	d.Set("piece length", int64(ghuge.PSize))
	d.Set("pieces", pieces)
	hugeInfo = rc.Bencode(d)
	return hugeInfo
}

// hugeSeedScenarios: windows at the end of the huge torrent, whose trailing pieces the seed supplies.
func hugeSeedScenarios() []readScenario {
	const G4 = int64(4) << 30
	HP := int64(ghuge.PSize)
	HL := ghuge.Length
	var l []readScenario
	for _, absent := range []int{1, 2} {
		for _, win := range [][2]int64{{HL - 5, 5}, {HL - 1, 1}, {HL - HP - 5, HP + 5}, {HL - HP - 100, 200}, {G4 + 2*HP - 10, HL - (G4 + 2*HP - 10)}} {
			for _, ops := range [][]string{{"read:-1", "read:1"}, {"read:100", "read:40000", "read:1"}, {"seek:-1:2", "read:1", "read:1"}, {"seek:-6:2", "read:16384", "read:1"}} {
				l = append(l, readScenario{Off: win[0], Len: win[1], Seed: true, Huge: true, Absent: absent, Ops: ops})
			}
		}
	}
	return l
}

func (s readScenario) String() string {
	if s.Huge {
		return fmt.Sprintf("huge torrent (4 GiB + 3 MiB + 5, 1 MiB pieces, last %d pieces not stored) window=(%d,%d) seed=%v ops=%v", s.Absent, s.Off, s.Len, s.Seed, s.Ops)
	}
	return fmt.Sprintf("window=(%d,%d) prefill=%v seed=%v corrupt=%v ops=%v", s.Off, s.Len, s.Prefill, s.Seed, s.Corrupt, s.Ops)
}

// seedLoop plays a remote peer: have-all, unchoke when asked, every request
// answered at once (true or corrupt data).
func seedLoop(conn net.Conn, truth []byte, psize uint32, corrupt bool) {
	seedLoopF(conn, func(off int64, n int) []byte { return truth[off : off+int64(n)] }, int64(len(truth)), psize, corrupt, nil)
}

// seedLoopF: the content is a function of the offset (torrents that are never
// materialised); onReq sees every Request storrent sends.
func seedLoopF(conn net.Conn, truthAt func(off int64, n int) []byte, total int64, psize uint32, corrupt bool, onReq func(m rc.Msg)) {
	send := func(m rc.Msg) error {
		_, err := conn.Write(rc.Encode(m, rc.EncodeOpts{OmitZero: true}))
		return err
	}
	go func() {
		send(rc.Msg{Kind: rc.HaveAll})
		send(rc.Msg{Kind: rc.Unchoke})
	}()
	r := bufio.NewReader(conn)
	for {
		var hdr [4]byte
		if _, err := io.ReadFull(r, hdr[:]); err != nil {
			return
		}
		l := binary.BigEndian.Uint32(hdr[:])
		body := make([]byte, l)
		if _, err := io.ReadFull(r, body); err != nil {
			return
		}
		m, err := rc.Decode(append(hdr[:], body...), rc.ExtIDs{})
		if err != nil {
			continue
		}
		if m.Kind == rc.Request {
			if onReq != nil {
				onReq(m)
			}
			off := int64(m.Index)*int64(psize) + int64(m.Begin)
			end := off + int64(m.Length)
			if off < 0 || end > total || m.Length > 1<<17 {
				continue
			}
			d := append([]byte{}, truthAt(off, int(m.Length))...)
			if corrupt {
				d[0] ^= 0xFF
			}
			reply := rc.Msg{Kind: rc.Piece, Index: m.Index, Begin: m.Begin, Data: d}
			go send(reply)
		}
	}
}

func runRead(t *testing.T, sc readScenario) (probs []problem, outcome string) {
	var reqMu sync.Mutex
	var reqProbs []problem
	defer func() {
		reqMu.Lock()
		seen := map[string]bool{}
		for _, p := range reqProbs {
			if !seen[p.Key] {
				seen[p.Key] = true
				probs = append(probs, p)
			}
		}
		reqMu.Unlock()
	}()
	prob := func(key, format string, a ...any) {
		for _, p := range probs {
			if p.Key == key {
				return
			}
		}
		probs = append(probs, problem{"C02", key, fmt.Sprintf(format, a...)})
	}
	defer func() {
		if p := recover(); p != nil {
			msg := fmt.Sprint(p)
			if strings.Contains(msg, "deadlock") {
				prob("C02/goroutines-left-blocked", "a goroutine was left blocked for ever: %s", firstLine(msg))
			} else {
				prob("C02/panic/"+firstLine(msg), "panic: %v", p)
			}
		}
	}()
	synctest.Test(t, func(t *testing.T) {
		vrand.Fix(5)
		defer vrand.Unfix()
		peer.VerifReset()
		config.MemoryMark = 1 << 30
		config.SetIdleRate(0)
		config.PrefetchRate = 768 * 1024
		config.DefaultDhtMode = config.DhtNone
		config.DefaultUseTrackers = false
		config.DefaultUseWebseeds = false
		g := wgeoms["gtail"]
		if sc.Huge {
			g = ghuge
		}
		w := &World{cfg: worldCfg{Geom: g.Name}, g: g}
		var info []byte
		truthAt := func(off int64, n int) []byte { return w.truth[off : off+int64(n)] }
		if sc.Huge {
			info = hugeSetup()
			truthAt = hugeTruth
		} else {
			w.truth = make([]byte, g.Length)
			for i := range w.truth {
				w.truth[i] = wtruthByte(int64(i))
			}
			info = buildInfo(g, w.truth, "read", 0)
		}
		tt, err := ReadTorrent("", bytes.NewReader(wrapInfo(info)))
		if err != nil {
			panic(err)
		}
		tt.Log = discardLog
		ctx, cancel := context.WithCancel(context.Background())
		defer cancel()
		tor, err := AddTorrent(ctx, tt)
		if err != nil {
			panic(err)
		}
		w.t = tor
		if sc.Huge {
			for i := uint32(hugeFirst); i < uint32(g.npieces()-sc.Absent); i++ {
				tor.Pieces.AddData(i, 0, append([]byte{}, hugePieces[i]...), ^uint32(0))
				if done, _, err := tor.Pieces.Finalise(i, tor.PieceHashes[i]); !done || err != nil {
					panic(fmt.Sprintf("huge piece %d: %v %v", i, done, err))
				}
			}
		} else if sc.Prefill {
			for i := 0; i < g.npieces(); i++ {
				w.storePiece(uint32(i))
			}
		}
		var conns []net.Conn
		connect := func(i int, corrupt bool) {
			a, b := net.Pipe()
			conns = append(conns, b)
			pid := hash.Hash([]byte(fmt.Sprintf("-RM0001-seed%08d", i)))
			tor.NewPeer("", a, netip.AddrPortFrom(netip.AddrFrom4([4]byte{16, 0, 0, byte(i + 1)}), uint16(9000+i)), false,
				protocol.HandshakeResult{Hash: tor.Hash, Id: pid, Fast: true, Extended: false}, nil)
			if sc.Huge {
				go seedLoopF(b, hugeTruth, g.Length, g.PSize, corrupt, func(m rc.Msg) {
					// C11: a request names a block of the piece: aligned, inside it, a full block or the piece's short tail
					pl := uint32(0)
					if int(m.Index) < g.npieces() {
						pl = g.pieceLen(m.Index)
					}
					want := uint32(wchunk)
					if m.Begin < pl && pl-m.Begin < want {
						want = pl - m.Begin
					}
					if int(m.Index) >= g.npieces() || m.Begin%wchunk != 0 || m.Begin >= pl || m.Length != want {
						reqMu.Lock()
						reqProbs = append(reqProbs, problem{"C11", "C11/request-not-a-block-of-the-piece", fmt.Sprintf("Request{%d,%d,%d}: piece %d of the torrent has %d bytes (torrent of %d bytes, piece length %d); the block at that offset has %d bytes  [%s]", m.Index, m.Begin, m.Length, m.Index, pl, g.Length, g.PSize, want, sc)})
						reqMu.Unlock()
					}
				})
			} else {
				go seedLoop(b, w.truth, g.PSize, corrupt)
			}
		}
		if sc.Corrupt {
			connect(1, true)
		}
		if sc.Seed {
			connect(0, false)
		}
		synctest.Wait()
		rctx, rcancel := context.WithCancel(ctx)
		defer rcancel()
		rd := tor.NewReader(rctx, sc.Off, sc.Len)
		runtime.SetFinalizer(rd, nil) // a finalizer would touch bubble channels from outside the bubble
		pos := int64(0)
		dead := false     // torrent deleted
		cancelled := false
		var trace []string
		for _, op := range sc.Ops {
			f := strings.Split(op, ":")
			arg := func(i int) int64 {
				var v int64
				if i < len(f) {
					fmt.Sscanf(f[i], "%d", &v)
				}
				return v
			}
			switch f[0] {
			case "read":
				size := int(arg(1))
				if size < 0 {
					size = int(sc.Len) + 1
				}
				deadline := time.Now().Add(time.Hour)
				for attempt := 0; ; attempt++ {
					buf := make([]byte, size)
					type res struct {
						n   int
						err error
					}
					ch := make(chan res, 1)
					go func() {
						n, err := rd.Read(buf)
						ch <- res{n, err}
					}()
					var r res
					got := false
					for !got {
						synctest.Wait()
						select {
						case r = <-ch:
							got = true
						default:
							if time.Now().After(deadline) {
								if dead || cancelled {
									prob("C02/read-hangs-after-cancel-or-delete", "a Read blocked for an hour of virtual time after its context was cancelled / the torrent deleted  [%s]", sc)
								} else if sc.Seed {
									prob("C02/read-never-returns", "with an honest unchoking seed connected, a Read at position %d did not return within an hour of virtual time  [%s]", pos, sc)
								} else if sc.Prefill && !strings.Contains(strings.Join(sc.Ops, ","), "evict") {
									prob("C02/read-blocks-on-present-data", "every piece of the window is verified and in the store, yet a Read at position %d did not return within an hour of virtual time  [%s]", pos, sc)
								}
								trace = append(trace, "hang")
								outcome = strings.Join(trace, ",")
								return
							}
							time.Sleep(time.Second)
						}
					}
					n, err := r.n, r.err
					room := sc.Len - pos
					switch {
					case n < 0 || n > size:
						prob("C02/read-count", "Read returned n=%d for a %d-byte buffer", n, size)
						return
					case int64(n) > room && room >= 0:
						prob("C02/read-beyond-window", "at position %d of a %d-byte window Read returned %d bytes  [%s]", pos, sc.Len, n, sc)
						return
					}
					if n > 0 && !bytes.Equal(buf[:n], truthAt(sc.Off+pos, n)) {
						prob("C02/read-wrong-bytes", "the %d bytes returned at position %d differ from the true content at offset %d  [%s]", n, pos, sc.Off+pos, sc)
						return
					}
					pos += int64(n)
					if err == io.EOF {
						if pos < sc.Len {
							prob("C02/early-eof", "EOF reported at position %d of %d  [%s]", pos, sc.Len, sc)
						}
						trace = append(trace, fmt.Sprintf("r%d+eof", n))
						break
					}
					if err != nil {
						if !dead && !cancelled {
							prob("C02/unexpected-error", "Read failed with %v although nothing was cancelled or deleted  [%s]", err, sc)
						}
						trace = append(trace, fmt.Sprintf("r%d+err", n))
						break
					}
					if (dead || cancelled) && n == 0 && size > 0 && pos < sc.Len {
						// one empty read is tolerated; the reader must fail promptly
						if attempt >= 4 {
							prob("C02/no-error-after-cancel-or-delete", "Read keeps returning (0, nil) after cancellation/deletion instead of failing (%d attempts)  [%s]", attempt+1, sc)
							break
						}
						continue
					}
					if pos >= sc.Len && n == 0 && size > 0 {
						prob("C02/missing-eof", "at the end of the window Read returned (0, nil) instead of EOF  [%s]", sc)
						break
					}
					if n > 0 || size == 0 {
						trace = append(trace, fmt.Sprintf("r%d", n))
						break
					}
					// (0, nil) with room left: legal, but the caller must make
					// progress eventually; retry after a short virtual sleep
					if !sc.Seed && !sc.Prefill {
						trace = append(trace, "r0")
						break
					}
					if time.Now().After(deadline) {
						prob("C02/no-progress", "with an honest unchoking seed connected or every piece already in the store, Read at position %d kept returning (0, nil) for an hour of virtual time (%d attempts)  [%s]", pos, attempt+1, sc)
						outcome = strings.Join(trace, ",")
						return
					}
					time.Sleep(10 * time.Millisecond)
					if attempt > 2000 {
						time.Sleep(5 * time.Second)
					}
				}
			case "seek":
				o, wh := arg(1), int(arg(2))
				want := int64(-1)
				switch wh {
				case io.SeekStart:
					want = o
				case io.SeekCurrent:
					want = pos + o
				case io.SeekEnd:
					want = sc.Len + o
				}
				n, err := rd.Seek(o, wh)
				if wh < 0 || wh > 2 || want < 0 {
					if err == nil {
						prob("C02/seek-accepts-invalid", "Seek(%d, %d) from position %d succeeded (-> %d)", o, wh, pos, n)
					}
				} else {
					if err != nil || n != want {
						prob("C02/seek-result", "Seek(%d, %d) from position %d returned (%d, %v), expected %d", o, wh, pos, n, err, want)
					} else {
						pos = want
					}
				}
				trace = append(trace, fmt.Sprintf("s%d", n))
			case "evict":
				tor.Pieces.Expire(0, nil, func(i uint32) { tor.Have(i, false) })
				trace = append(trace, "evict")
			case "cancel":
				rcancel()
				cancelled = true
			case "kill":
				tor.Kill(context.Background())
				dead = true
			case "adv":
				time.Sleep(time.Duration(arg(1)) * time.Second)
			}
			synctest.Wait()
		}
		outcome = strings.Join(trace, ",")
		done := make(chan struct{})
		go func() { rd.Close(); close(done) }()
		synctest.Wait()
		select {
		case <-done:
		default:
			prob("C02/close-hangs", "Reader.Close did not return  [%s]", sc)
		}
		if !dead {
			tor.Kill(context.Background())
		}
		for _, c := range conns {
			c.Close()
		}
		synctest.Wait()
		time.Sleep(time.Hour)
		synctest.Wait()
		del(tor.Hash)
	})
	return
}

func TestVerifC02(t *testing.T) {
	if os.Getenv("VERIF_OUT") == "" && vh.ReplayFile() == "" {
		t.Skip("verif harness: run through /verif/run")
	}
	res := vh.NewResult("C02")
	defer func() {
		vh.ClearCheckpoint("C02")
		if err := res.Write(); err != nil {
			t.Error(err)
		}
	}()
	judge := func(sc readScenario) {
		vh.CheckpointKey("C02", "C02/crash", sc)
		stop := vh.Guard("C02", "C02", sc, 180*time.Second)
		probs, out := runRead(t, sc)
		stop()
		res.Add("scenarios", 1)
		res.Add("states", int64(len(sc.Ops)+1))
		res.Add("transitions", int64(len(sc.Ops)))
		res.Add("traces_validated_against_impl", 1)
		res.Distinct("outcomes", out)
		for _, p := range probs {
			if res.HasViolation(p.Key) || p.Prop != "C02" {
				continue
			}
			hits := 0
			for i := 0; i < 5; i++ {
				pp, _ := runRead(t, sc)
				for _, q := range pp {
					if q.Key == p.Key {
						hits++
						break
					}
				}
			}
			if hits < 2 {
				res.Add("replay_divergences", 1)
				continue
			}
			res.Violate(p.Key, p.Msg, sc)
		}
		if res.Counters["scenarios"]%500 == 0 {
			res.Write()
		}
	}
	if vh.ReplayFile() != "" {
		var sc readScenario
		if err := vh.LoadReplay(&sc); err != nil {
			t.Fatal(err)
		}
		probs, out := runRead(t, sc)
		fmt.Printf("scenario: %s\noutcome: %s\n", sc, out)
		for _, p := range probs {
			fmt.Printf("RESULT: violation %s: %s\n", p.Key, p.Msg)
		}
		if len(probs) == 0 {
			fmt.Println("RESULT: property held on this scenario")
		}
		return
	}
	g := wgeoms["gtail"]
	L := g.Length
	P := int64(g.PSize)
	windows := [][2]int64{{0, L}, {0, 1}, {100, 40000}, {P, P}, {2*P - 1, 2}, {L - 1, 1}, {wchunk, wchunk}, {2 * P, L - 2*P}, {0, 0}, {P - 100, 200}, {1, L - 1}}
	ops := []string{"read:0", "read:1", "read:100", "read:16384", "read:40000", "read:-1",
		"seek:0:0", "seek:16383:0", "seek:32768:0", "seek:-1:0", "seek:100:1", "seek:-1:2", "seek:0:2", "seek:5:2", "seek:0:7", "seek:-50000:1"}
	work := 0
	mine := func() bool { work++; return vh.Mine(work) }
	// (a) arithmetic: everything cached, every sequence of <=3 operations
	for _, win := range windows {
		for _, a := range ops {
			for _, b := range ops {
				if !mine() {
					continue
				}
				if vh.Expired() {
					res.NotExhaustive("deadline in the arithmetic sweep")
					return
				}
				judge(readScenario{Off: win[0], Len: win[1], Prefill: true, Ops: []string{a, b}})
				for _, c := range ops {
					if !vh.Thorough() && !strings.HasPrefix(c, "read") {
						continue
					}
					judge(readScenario{Off: win[0], Len: win[1], Prefill: true, Ops: []string{a, b, c}})
				}
			}
		}
	}
	// (a') the same arithmetic beyond 4 GiB: windows around the 4 GiB mark, across piece
	// boundaries behind it, and at the very end of a torrent of 4 GiB + 3 MiB + 5 bytes
	{
		const G4 = int64(4) << 30
		HP := int64(ghuge.PSize)
		HL := ghuge.Length
		hwin := [][2]int64{{G4 - 100, 200}, {G4, 40000}, {G4 - HP - 5, 2*HP + 10}, {G4 + HP - 1, 2}, {HL - 1, 1}, {G4 + 2*HP + 100, HL - (G4 + 2*HP + 100)}, {G4 - 2*HP, HL - (G4 - 2*HP)}}
		hops := []string{"read:1", "read:100", "read:16384", "read:40000", "read:-1",
			"seek:0:0", "seek:16383:0", "seek:1048576:0", "seek:-1:2", "seek:100:1", "seek:0:2", "seek:-50000:1"}
		for _, win := range hwin {
			for _, a := range hops {
				if !mine() {
					continue
				}
				if vh.Expired() {
					res.NotExhaustive("deadline in the sweep beyond 4 GiB")
					return
				}
				for _, b := range hops {
					judge(readScenario{Off: win[0], Len: win[1], Prefill: true, Huge: true, Ops: []string{a, b}})
					if vh.Thorough() || strings.HasPrefix(a, "seek") {
						for _, c := range hops[:5] {
							judge(readScenario{Off: win[0], Len: win[1], Prefill: true, Huge: true, Ops: []string{a, b, c}})
						}
					}
				}
			}
		}
	}
	// (a'') beyond 4 GiB with an honest seed: the last one or two pieces (a full one and the
	// 5-byte tail) are not stored and have to be fetched
	for _, sc := range hugeSeedScenarios() {
		if !mine() {
			continue
		}
		judge(sc)
	}
	// (b) liveness and histories: an honest seed, evictions / cancel / kill between operations
	env := []string{"read:100", "read:40000", "seek:32768:0", "seek:0:0", "evict", "cancel", "kill", "adv:60"}
	depth := 4
	var rec func(prefix []string)
	for _, win := range [][2]int64{{0, L}, {100, 40000}, {2*P - 1, 2}, {2 * P, L - 2*P}} {
		for _, prefill := range []bool{false, true} {
			for _, corrupt := range []bool{false, true} {
				if corrupt && !vh.Thorough() && win[0] != 100 {
					continue
				}
				rec = func(prefix []string) {
					if len(prefix) > 0 {
						if len(prefix) == 2 && !mine() {
							return
						}
						if len(prefix) >= 2 || vh.Mine(0) {
							if vh.Expired() {
								res.NotExhaustive("deadline in the history sweep")
								return
							}
							if strings.HasPrefix(prefix[len(prefix)-1], "read") {
								judge(readScenario{Off: win[0], Len: win[1], Prefill: prefill, Seed: true, Corrupt: corrupt, Ops: prefix})
							}
						}
					}
					if len(prefix) == depth {
						return
					}
					for _, e := range env {
						// nothing interesting follows a kill except reads
						if len(prefix) > 0 && prefix[len(prefix)-1] == "kill" && !strings.HasPrefix(e, "read") {
							continue
						}
						rec(append(append([]string{}, prefix...), e))
					}
				}
				rec(nil)
			}
		}
	}
	// (c) endurance: the same range is evicted and read again many times (the
	// scheduler's per-block in-flight counters saturate at 2-3, so a counter that
	// leaks one unit per round only stalls the stream after several rounds), on
	// windows that end in the torrent's short last block, start in it, or span
	// everything, with and without a seek back in between
	for _, win := range [][2]int64{{0, L}, {2 * P, L - 2*P}, {L - 1, 1}, {100, 40000}, {P, P}} {
		for _, rounds := range []int{3, 4, 5, 8} {
			for _, rd := range []string{"read:40000", "read:100", "read:1"} {
				if !mine() {
					continue
				}
				var ops []string
				for i := 0; i < rounds; i++ {
					ops = append(ops, rd, "evict", "seek:0:0")
				}
				ops = append(ops, rd)
				for _, prefill := range []bool{false, true} {
					judge(readScenario{Off: win[0], Len: win[1], Prefill: prefill, Seed: true, Ops: ops})
				}
			}
		}
	}
	res.Sample(readScenario{Off: 100, Len: 40000, Seed: true, Ops: []string{"read:40000", "evict", "read:100", "read:40000"}})
}
