package tor

import "testing"

// C01 beyond the piece store: the bytes storrent hands out - Piece payloads to
// a requesting peer, Read results to a Reader - are the true content of the
// range, in every explored state of worlds that upload, download and read at
// once.  In these builds protocol.GetBuffer/PutBuffer run on a deterministic
// pool that hands a released buffer straight to the next user and poisons it
// on release (shim vpool), so a buffer released while a message still refers
// to it shows as wrong bytes on the wire (monitor: C01/upload-wrong-bytes,
// C01/reader-wrong-bytes, C01/store-wrong-bytes in world_test.go).

func c01Specs() []*bfsSpec {
	return []*bfsSpec{
		{Name: "c01-upload", Cfg: worldCfg{Geom: "gshort", Peers: []peerCfg{{Fast: true, Ext: true, DontHave: 7}}, Have: []int{0, 2}, AutoDrain: true},
			Setup: []string{"interested:0", "unchokepeer:0"},
			// (the last three requests can only partly be satisfied from verified data)
			Alphabet: []string{"req:0:0:0:16384", "req:0:0:16384:16384", "req:0:2:0:100", "req:0:0:16384:16385", "req:0:2:0:16384", "req:0:0:32767:2", "stall:0", "resume:0", "advms:300", "adv:2", "evict", "ucancel:0", "chokepeer:0", "unchokepeer:0"},
			Depth: 5, DepthT: 7},
		{Name: "c01-download-read", Cfg: worldCfg{Geom: "gtail", Peers: []peerCfg{{Fast: true, Ext: true, DontHave: 7}}, AutoDrain: true},
			Setup: []string{"haveall:0", "unchoke:0", "ropen:0:81921"},
			Alphabet: []string{"rread:0:40000", "rread:0:100", "rseek:0:16000", "rseek:0:40000", "tick", "complete:0", "ans:0:old:full", "ans:0:old:corrupt", "ans:0:old:long", "ans:0:new:full", "evict", "adv:2", "complete:1", "fail:0"},
			Depth: 5, DepthT: 7},
		{Name: "c01-up-and-down", Cfg: worldCfg{Geom: "g2x2", Peers: []peerCfg{{Fast: true, Ext: true, DontHave: 7}, {Fast: true}}, Have: []int{0}, AutoDrain: true},
			Setup: []string{"haveall:0", "unchoke:0", "want:1:1", "tick", "interested:1", "unchokepeer:1"},
			// (complete:1 makes the answers that are still outstanding late duplicates)
			Alphabet: []string{"ans:0:old:full", "ans:0:old:corrupt", "ans:0:new:full", "complete:1", "req:1:0:0:16384", "req:1:0:16384:16384", "req:1:1:0:16384", "stall:1", "resume:1", "advms:300", "tick", "evict"},
			Depth: 5, DepthT: 7},
	}
}

func TestVerifC01World(t *testing.T) { runSpecs(t, "C01", c01Specs()) }
