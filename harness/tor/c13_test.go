package tor

// C13: torrent files — total parsing, consistent geometry, identity preserved.
// Engine C: cartesian product of metainfo field alphabets, byte-level edits of
// valid torrents (every truncation, deletion, substitution), magnet links.

import (
	"errors"
	"bytes"
	"crypto/sha1"
	"encoding/base32"
	"fmt"
	"os"
	"sort"
	"strings"
	"testing"

	"github.com/jech/storrent/config"
	"github.com/jech/storrent/webseed"
	rc "github.com/jech/storrent/zzverif/refcodec"
	"github.com/jech/storrent/zzverif/vh"
)

type c13 struct {
	res     *vh.Result
	nontriv map[string]bool
}

func hexs(b []byte) string {
	if len(b) > 3000 {
		return fmt.Sprintf("%x...(%d bytes)", b[:3000], len(b))
	}
	return fmt.Sprintf("%x", b)
}

// geometry checks the self-consistency clauses on a torrent whose metadata is complete.
func geometry(t *Torrent) string {
	ps := int64(t.Pieces.PieceSize())
	if ps <= 0 || ps%int64(config.ChunkSize) != 0 {
		return fmt.Sprintf("piece length %d is not a positive multiple of 16 KiB", ps)
	}
	length := t.Pieces.Length()
	if length < 0 {
		return fmt.Sprintf("negative total length %d", length)
	}
	cs := int64(config.ChunkSize)
	if want := (length + cs - 1) / cs; int64(len(t.inFlight)) != want {
		return fmt.Sprintf("%d in-flight slots for %d blocks (length %d)", len(t.inFlight), want, length)
	}
	np := (length + ps - 1) / ps
	if int64(t.Pieces.Num()) != np {
		return fmt.Sprintf("piece store has %d pieces, length/piece length gives %d", t.Pieces.Num(), np)
	}
	if int64(len(t.PieceHashes)) != np {
		return fmt.Sprintf("%d piece hashes for %d pieces", len(t.PieceHashes), np)
	}
	if t.Name == "" {
		return "empty name"
	}
	if np > 0 && np < 1<<21 {
		// the pieces tile the torrent: full pieces, then one of 1..ps bytes
		var sum int64
		for i := int64(0); i < np; i++ {
			pl := int64(t.Pieces.PieceLength(uint32(i)))
			want := ps
			if i == np-1 {
				want = length - (np-1)*ps
			}
			if pl != want {
				return fmt.Sprintf("piece %d of %d has length %d, expected %d", i, np, pl, want)
			}
			sum += pl
		}
		if sum != length {
			return fmt.Sprintf("piece lengths sum to %d, total length is %d", sum, length)
		}
	}
	if t.Files != nil {
		var off int64
		for i, f := range t.Files {
			if f.Length < 0 {
				return fmt.Sprintf("file %d has negative length %d", i, f.Length)
			}
			if f.Offset != off {
				return fmt.Sprintf("file %d at offset %d, expected %d", i, f.Offset, off)
			}
			if off+f.Length < off {
				return "file offsets wrap around"
			}
			off += f.Length
		}
		if off != length {
			return fmt.Sprintf("files sum to %d, total length is %d", off, length)
		}
	}
	return ""
}

func trackerTiers(t *Torrent) string {
	var tiers []string
	for _, tier := range t.trackers {
		var l []string
		for _, tr := range tier {
			l = append(l, tr.URL())
		}
		tiers = append(tiers, "["+strings.Join(l, " ")+"]")
	}
	return strings.Join(tiers, " ")
}

func webseedList2(t *Torrent) string {
	var l []string
	for _, ws := range t.webseeds {
		k := "hoffman:"
		if _, ok := ws.(*webseed.GetRight); ok {
			k = "getright:"
		}
		l = append(l, k+ws.URL())
	}
	return strings.Join(l, " ")
}

// judge feeds one byte string to ReadTorrent and evaluates the oracle.
func (h *c13) judge(input []byte, class string) {
	h.res.Add("evaluations", 1)
	var t *Torrent
	var err error
	var pan any
	func() {
		defer func() { pan = recover() }()
		t, err = ReadTorrent("", bytes.NewReader(input))
	}()
	rp := map[string]any{"kind": "torrent", "input_hex": hexs(input)}
	if pan != nil {
		key := "C13/panic/" + fmt.Sprint(pan)
		if len(key) > 90 {
			key = key[:90]
		}
		h.res.Violate(key, fmt.Sprintf("ReadTorrent panicked: %v  [%s; input %q]", pan, class, trunc200(input)), rp)
		return
	}
	if err != nil {
		h.nontriv["err/"+class+"/"+errClass(err)] = true
		return
	}
	if t == nil {
		h.res.Violate("C13/nil-nil", "ReadTorrent returned neither a torrent nor an error", rp)
		return
	}
	if g := geometry(t); g != "" {
		k := strings.Map(func(r rune) rune {
			if r >= '0' && r <= '9' || r == '-' {
				return -1
			}
			if r == ' ' {
				return '-'
			}
			return r
		}, g)
		if len(k) > 40 {
			k = k[:40]
		}
		h.res.Violate("C13/geometry/"+k, fmt.Sprintf("ReadTorrent accepted a torrent with inconsistent geometry: %s  [%s; input %q]", g, class, trunc200(input)), rp)
		return
	}
	// identity: the info-hash is the SHA-1 of the info value as it appears in the input
	if v, _, e := rc.Bdecode(input); e == nil {
		if d, ok := v.(*rc.Dict); ok {
			ninfo := 0
			for _, k := range d.Keys {
				if k == "info" {
					ninfo++
				}
			}
			if s, e2, ok := d.Span("info"); ok && ninfo == 1 {
				want := sha1.Sum(input[s:e2])
				if !bytes.Equal(want[:], t.Hash) {
					h.res.Violate("C13/hash", fmt.Sprintf("info-hash %v is not the SHA-1 of the info dictionary as it appears in the input (%x)  [%s]", t.Hash, want, class), rp)
					return
				}
				h.res.Add("hash_checked", 1)
			}
		}
	}
	// round trip through WriteTorrent
	var buf bytes.Buffer
	func() {
		defer func() { pan = recover() }()
		err = WriteTorrent(&buf, t)
	}()
	if pan != nil || err != nil {
		h.res.Violate("C13/write", fmt.Sprintf("WriteTorrent failed: %v %v  [%s]", pan, err, class), rp)
		return
	}
	t2, err := ReadTorrent("", bytes.NewReader(buf.Bytes()))
	if err != nil {
		h.res.Violate("C13/reread", fmt.Sprintf("the .torrent written by WriteTorrent is refused by ReadTorrent: %v  [%s]", err, class), rp)
		return
	}
	if !bytes.Equal(t2.Hash, t.Hash) {
		h.res.Violate("C13/roundtrip-hash", fmt.Sprintf("the served .torrent has info-hash %v, the torrent's is %v  [%s]", t2.Hash, t.Hash, class), rp)
	}
	if a, b := trackerTiers(t), trackerTiers(t2); a != b {
		h.res.Violate("C13/roundtrip-trackers", fmt.Sprintf("the served .torrent has trackers %q, the torrent has %q  [%s]", b, a, class), rp)
	}
	if a, b := webseedList2(t), webseedList2(t2); a != b {
		h.res.Violate("C13/roundtrip-webseeds", fmt.Sprintf("the served .torrent has web seeds %q, the torrent has %q  [%s]", b, a, class), rp)
	}
	h.nontriv[fmt.Sprintf("ok/%s/%d/%d/%d/%s/%s", class, t.Pieces.Num(), len(t.Files), t.Pieces.PieceSize(), trackerTiers(t), webseedList2(t))] = true
}

// failingWriter accepts failAt bytes and then fails (or, with short, reports a
// short write without an error once, then fails).
type failingWriter struct {
	failAt int
	short  bool
	n      int
}

func (w *failingWriter) Write(p []byte) (int, error) {
	room := w.failAt - w.n
	if room >= len(p) {
		w.n += len(p)
		return len(p), nil
	}
	if room < 0 {
		room = 0
	}
	w.n += room
	if w.short {
		w.short = false
		return room, nil
	}
	return room, errors.New("scripted: client went away")
}

func trunc200(b []byte) []byte {
	if len(b) > 200 {
		return b[:200]
	}
	return b
}

func errClass(err error) string {
	s := err.Error()
	if len(s) > 24 {
		s = s[:24]
	}
	return s
}

type kv struct {
	k string
	v rc.Value // nil = key absent
}

func dict(kvs ...kv) *rc.Dict {
	d := &rc.Dict{}
	for _, e := range kvs {
		if e.v != nil {
			d.Keys = append(d.Keys, e.k)
			d.Vals = append(d.Vals, e.v)
		}
	}
	return d
}

func hashes(n int) []byte {
	if n < 0 {
		n = 0
	}
	b := make([]byte, 20*n)
	for i := range b {
		b[i] = byte(i*31 + 5)
	}
	return b
}

func fileEntry(length rc.Value, path rc.Value, attr rc.Value, path8 rc.Value) *rc.Dict {
	return dict(kv{"attr", attr}, kv{"length", length}, kv{"path", path}, kv{"path.utf-8", path8})
}

func plist(s ...string) []rc.Value {
	l := []rc.Value{}
	for _, x := range s {
		l = append(l, x)
	}
	return l
}

func TestVerifC13(t *testing.T) {
	if os.Getenv("VERIF_OUT") == "" && vh.ReplayFile() == "" {
		t.Skip("verif harness: run through /verif/run")
	}
	res := vh.NewResult("C13")
	h := &c13{res: res, nontriv: map[string]bool{}}
	defer func() {
		res.Add("distinct_nontrivial", int64(len(h.nontriv)))
		if err := res.Write(); err != nil {
			t.Error(err)
		}
	}()
	if vh.ReplayFile() != "" {
		var rp struct {
			Kind     string `json:"kind"`
			InputHex string `json:"input_hex"`
			Magnet   string `json:"magnet"`
		}
		if err := vh.LoadReplay(&rp); err != nil {
			t.Fatal(err)
		}
		if rp.Kind == "magnet" {
			h.judgeMagnet(rp.Magnet)
		} else {
			in := make([]byte, len(rp.InputHex)/2)
			fmt.Sscanf(rp.InputHex, "%x", &in)
			fmt.Printf("input: %q\n", in)
			h.judge(in, "replay")
		}
		for _, v := range res.Violations {
			fmt.Printf("RESULT: violation %s: %s\n", v.Key, v.Message)
		}
		if len(res.Violations) == 0 {
			fmt.Println("RESULT: property held on this input")
		}
		return
	}
	work := 0
	mine := func() bool { work++; return vh.Mine(work) }
	thorough := vh.Thorough()

	// (a) structured: product of the info-field alphabets
	pieceLens := []rc.Value{nil, 0, 1, 16383, 16384, 32768, int64(1) << 31, int64(1)<<32 - 16384, int64(1) << 32, -16384, "16384", rc.RawInt("016384")}
	lengths := []rc.Value{nil, 0, 1, 16384, 65636, 32768, int64(1)<<46 - 1, int64(1) << 46, int64(9223372036854775807), -1, rc.RawInt("9223372036854775808")}
	filesAlpha := map[string]rc.Value{
		"absent": nil,
		"empty":  []rc.Value{},
		"one":    []rc.Value{fileEntry(40000, plist("a"), nil, nil)},
		"two":    []rc.Value{fileEntry(40000, plist("d", "a"), nil, nil), fileEntry(25636, plist("d", "b"), nil, nil)},
		"zero":   []rc.Value{fileEntry(0, plist("z"), nil, nil), fileEntry(65636, plist("a"), nil, nil)},
		"pad":    []rc.Value{fileEntry(100, plist("a"), nil, nil), fileEntry(16284, plist(".pad", "1"), "p", nil), fileEntry(49252, plist("b"), nil, nil)},
		"neg":    []rc.Value{fileEntry(70000, plist("a"), nil, nil), fileEntry(-4364, plist("b"), nil, nil)},
		"wrap":   []rc.Value{fileEntry(int64(9223372036854775807), plist("a"), nil, nil), fileEntry(int64(9223372036854775807), plist("b"), nil, nil), fileEntry(65638, plist("c"), nil, nil)},
		"nopath": []rc.Value{fileEntry(65636, nil, nil, nil)},
		"path0":  []rc.Value{fileEntry(65636, []rc.Value{}, nil, nil)},
		"pathstr": []rc.Value{fileEntry(65636, "a/b", nil, nil)},
		"path8":  []rc.Value{fileEntry(65636, plist("a"), nil, plist("ä"))},
		"notlist": "files",
		"allzero": []rc.Value{fileEntry(0, plist("a"), nil, nil), fileEntry(0, plist("b"), nil, nil)},
	}
	names := []rc.Value{nil, "", "x", "/", "a/b", 7}
	name8s := []rc.Value{nil, "ü"}
	filesKeys := make([]string, 0, len(filesAlpha))
	for k := range filesAlpha {
		filesKeys = append(filesKeys, k)
	}
	sort.Strings(filesKeys)
	for _, pl := range pieceLens {
		for _, ln := range lengths {
			// sorted keys: the shards are separate processes and must agree on which
			// (piece length, length, files) cell each counter value stands for
			for _, fk := range filesKeys {
				fv := filesAlpha[fk]
				if !mine() {
					continue
				}
				// number of pieces implied, when computable
				total := int64(-1)
				if x, ok := ln.(int); ok && x > 0 {
					total = int64(x)
				} else if fv != nil && (ln == nil || ln == 0) {
					switch fk {
					case "one":
						total = 40000
					case "two", "zero", "pad", "nopath", "path0", "pathstr", "path8", "neg":
						total = 65636
					case "allzero", "empty":
						total = 0
					}
				}
				npieces := []int{0, 1, 3}
				if p, ok := pl.(int); ok && p > 0 && total >= 0 {
					n := int((total + int64(p) - 1) / int64(p))
					if n < 100000 {
						npieces = []int{n, n - 1, n + 1, 0}
					}
				}
				for _, np := range npieces {
					for _, odd := range []bool{false, true} {
						if odd && np != npieces[0] {
							continue
						}
						pieces := hashes(np)
						if odd {
							pieces = append(pieces, 1, 2, 3)[:len(pieces)+3-4+1+0]
						}
						for _, nm := range names {
							for _, n8 := range name8s {
								if !thorough && n8 != nil && (nm == nil || nm == "/") {
									continue
								}
								info := dict(kv{"files", fv}, kv{"length", ln}, kv{"name", nm}, kv{"name.utf-8", n8}, kv{"piece length", pl}, kv{"pieces", pieces})
								top := dict(kv{"announce", "http://t.example/a"}, kv{"info", info})
								h.judge(rc.Bencode(top), "structured")
							}
						}
					}
				}
			}
		}
	}
	// torrents around and beyond 4 GiB with piece lengths that are and are not powers of two
	for _, pl := range []int64{49152, 1 << 20, 1<<20 + 16384, 3 << 20, 1 << 24} {
		if !mine() {
			continue
		}
		for _, base := range []int64{1<<32 - 1, 1 << 32, 1<<32 + 1, 1<<32 + pl - 1, 1<<32 + pl, 1<<32 + pl + 1, 5<<30 + 7, 1<<33 + 12345, 3 * pl, 3*pl + 1} {
			n := int((base + pl - 1) / pl)
			if n > 120000 {
				continue
			}
			info := dict(kv{"length", base}, kv{"name", "big"}, kv{"piece length", pl}, kv{"pieces", hashes(n)})
			h.judge(rc.Bencode(dict(kv{"announce", "http://t.example/a"}, kv{"info", info})), "large")
			// the same bytes as two files
			info2 := dict(kv{"files", []rc.Value{fileEntry(base-pl-1, plist("a"), nil, nil), fileEntry(pl+1, plist("b"), nil, nil)}}, kv{"name", "big2"}, kv{"piece length", pl}, kv{"pieces", hashes(n)})
			h.judge(rc.Bencode(dict(kv{"info", info2})), "large")
		}
	}
	// histories of WriteTorrent calls: a write that fails (the client went away) after k
	// bytes must not leak into what is served next, for another torrent or the same
	if mine() {
		mk := func(name string, trackers rc.Value) (*Torrent, []byte) {
			info := dict(kv{"length", 65636}, kv{"name", name}, kv{"piece length", 32768}, kv{"pieces", hashes(3)})
			raw := rc.Bencode(dict(kv{"announce-list", trackers}, kv{"info", info}))
			t, err := ReadTorrent("", bytes.NewReader(raw))
			if err != nil {
				panic(err)
			}
			return t, raw
		}
		ta, _ := mk("first", []rc.Value{plist("http://a/1")})
		tb, _ := mk("second-torrent-with-a-longer-name", []rc.Value{plist("udp://b:1", "http://c/2")})
		var ref bytes.Buffer
		WriteTorrent(&ref, ta)
		full := ref.Len()
		for _, failAt := range []int{0, 1, 17, full / 2, full - 1} {
			for _, short := range []bool{false, true} {
				for _, order := range [][2]*Torrent{{ta, tb}, {ta, ta}, {tb, ta}} {
					h.res.Add("evaluations", 1)
					fw := &failingWriter{failAt: failAt, short: short}
					func() {
						defer func() { recover() }()
						WriteTorrent(fw, order[0])
					}()
					var out bytes.Buffer
					var pan any
					var err error
					func() {
						defer func() { pan = recover() }()
						err = WriteTorrent(&out, order[1])
					}()
					rp := map[string]any{"kind": "write-history", "fail_at": failAt, "short": short}
					if pan != nil || err != nil {
						h.res.Violate("C13/write-after-failed-write", fmt.Sprintf("after a write that failed at byte %d, the next WriteTorrent failed: %v %v", failAt, pan, err), rp)
						continue
					}
					t2, err := ReadTorrent("", bytes.NewReader(out.Bytes()))
					if err != nil || !bytes.Equal(t2.Hash, order[1].Hash) || trackerTiers(t2) != trackerTiers(order[1]) {
						h.res.Violate("C13/write-after-failed-write", fmt.Sprintf("after a write of another .torrent failed at byte %d (short write: %v), the .torrent served next does not decode to its own torrent (%v): what is left of the failed write leaks into it", failAt, short, err), rp)
					}
					h.nontriv[fmt.Sprintf("wh/%d/%v", failAt, short)] = true
				}
			}
		}
	}
	// covering set for the outer fields, around one good info dictionary
	goodInfo := dict(kv{"length", 65636}, kv{"name", "x"}, kv{"piece length", 32768}, kv{"pieces", hashes(3)})
	goodMulti := dict(kv{"files", filesAlpha["pad"]}, kv{"name", "m"}, kv{"piece length", 16384}, kv{"pieces", hashes(5)})
	announces := []rc.Value{nil, "", "http://t.example/announce", "udp://t.example:6969", "wss://x/y", "not a url", "http://[::1", 5, []rc.Value{}}
	alists := []rc.Value{nil, []rc.Value{}, []rc.Value{[]rc.Value{}}, []rc.Value{plist("http://a/1")}, []rc.Value{plist("http://a/1", "udp://b:1")},
		[]rc.Value{plist("http://a/1"), plist("udp://b:1", "http://c/2")}, []rc.Value{[]rc.Value{}, plist("http://a/1")}, []rc.Value{plist("http://[::1", "zz://q")},
		"http://a/1", []rc.Value{"http://a/1"}, []rc.Value{plist("http://a/1"), plist("http://a/1")}}
	urllists := []rc.Value{nil, "http://w.example/f", plist("http://w.example/f", "https://w2.example/g/"), []rc.Value{}, "ftp://w/x", plist("http://[::1", "http://ok/"), 7}
	httpseeds := []rc.Value{nil, plist("http://h.example/seed"), "http://h.example/seed2", []rc.Value{}}
	cdates := []rc.Value{nil, 0, 1, int64(9223372036854775807), -1, "x"}
	for _, info := range []*rc.Dict{goodInfo, goodMulti} {
		for _, an := range announces {
			for _, al := range alists {
				if !mine() {
					continue
				}
				for _, ul := range urllists {
					for _, hs := range httpseeds {
						for _, cd := range cdates {
							top := dict(kv{"announce", an}, kv{"announce-list", al}, kv{"creation date", cd}, kv{"httpseeds", hs}, kv{"info", info}, kv{"url-list", ul})
							h.judge(rc.Bencode(top), "outer")
						}
					}
				}
			}
		}
	}
	// key order, extra keys and non-canonical forms inside and around info
	if mine() {
		infoRev := &rc.Dict{Keys: []string{"pieces", "piece length", "name", "length"}, Vals: []rc.Value{hashes(3), 32768, "x", 65636}}
		infoExtra := dict(kv{"aaa", "first"}, kv{"length", 65636}, kv{"name", "x"}, kv{"piece length", 32768}, kv{"pieces", hashes(3)}, kv{"private", 1}, kv{"zzz", []rc.Value{1, "2", dict(kv{"k", "v"})}})
		infoNonCanon := dict(kv{"length", rc.RawInt("065636")}, kv{"name", "x"}, kv{"piece length", rc.RawInt("32768")}, kv{"pieces", hashes(3)})
		for _, info := range []*rc.Dict{infoRev, infoExtra, infoNonCanon} {
			for _, variant := range []int{0, 1, 2, 3} {
				var top *rc.Dict
				switch variant {
				case 0:
					top = dict(kv{"info", info})
				case 1:
					top = dict(kv{"a-before", "x"}, kv{"info", info}, kv{"z-after", dict(kv{"info", "decoy"})})
				case 2:
					top = &rc.Dict{Keys: []string{"url-list", "info", "announce"}, Vals: []rc.Value{"http://w/", info, "http://t/"}}
				case 3:
					top = &rc.Dict{Keys: []string{"info", "info"}, Vals: []rc.Value{info, goodInfo}}
				}
				h.judge(rc.BencodeKeepOrder(top), "key-order")
			}
		}
		res.Sample(map[string]any{"input": string(rc.BencodeKeepOrder(dict(kv{"info", dict(kv{"length", 65636}, kv{"name", "x"}, kv{"piece length", 32768}, kv{"pieces", "<60 bytes>"})})))})
	}

	// (b) byte-level edits of three valid torrents
	valid := [][]byte{
		rc.Bencode(dict(kv{"announce", "http://t.example/a"}, kv{"info", goodInfo})),
		rc.Bencode(dict(kv{"announce-list", alists[5]}, kv{"info", goodMulti}, kv{"url-list", urllists[2]})),
		rc.Bencode(dict(kv{"announce", "udp://t:1"}, kv{"creation date", 1234567890}, kv{"httpseeds", httpseeds[1]}, kv{"info", dict(kv{"files", filesAlpha["two"]}, kv{"name", "d"}, kv{"piece length", 32768}, kv{"pieces", hashes(3)})})),
	}
	subs := []byte{0x00, '0', '9', '-', 'e', 'i', 'l', 'd', ':', 0xFF}
	for vi, v := range valid {
		h.judge(v, "valid")
		for i := 0; i <= len(v); i++ {
			if !mine() {
				continue
			}
			if vh.Expired() {
				res.NotExhaustive("deadline in the byte-level edits")
				return
			}
			h.judge(v[:i], fmt.Sprintf("truncated/%d", vi))
			if i < len(v) {
				h.judge(append(append([]byte{}, v[:i]...), v[i+1:]...), fmt.Sprintf("deleted/%d", vi))
				for _, s := range subs {
					if v[i] == s {
						continue
					}
					m := append([]byte{}, v...)
					m[i] = s
					h.judge(m, fmt.Sprintf("substituted/%d", vi))
				}
			}
		}
	}

	// (c) magnets
	hexh := "0123456789abcdef0123456789ABCDEF01234567"
	raw := make([]byte, 20)
	fmt.Sscanf(strings.ToLower(hexh), "%x", &raw)
	b32 := base32.StdEncoding.EncodeToString(raw)
	xts := []string{"urn:btih:" + hexh, "urn:btih:" + strings.ToLower(hexh), "urn:btih:" + b32, "urn:btih:" + strings.ToLower(b32), "urn:btih:" + hexh[:39], "urn:btih:" + hexh + "00",
		"urn:sha1:" + hexh, "urn:btih:", "", "urn:btih:zzzz"}
	trs := []string{"", "http://t.example/a", "udp://t:1", "zz://odd", "http://[::1", "not a url", "http://t/a b"}
	wss := []string{"", "http://w.example/f", "ftp://w/f", "http://[::1"}
	dns := []string{"", "name", "a&b=c", "<script>", "a/b", "%zz"}
	for _, xt := range xts {
		for _, xt2 := range []string{"", "urn:btih:" + strings.Repeat("ab", 20)} {
			if !mine() {
				continue
			}
			for _, tr := range trs {
				for _, tr2 := range []string{"", "http://second/"} {
					for _, ws := range wss {
						for _, as := range []string{"", "http://as.example/x"} {
							for _, dn := range dns {
								m := "magnet:?"
								add := func(k, v string) {
									if v != "" {
										m += k + "=" + strings.NewReplacer(" ", "%20", "&", "%26", "=", "%3D", "<", "%3C", ">", "%3E", "%zz", "%zz").Replace(v) + "&"
									}
								}
								add("xt", xt)
								add("xt", xt2)
								add("tr", tr)
								add("tr", tr2)
								add("ws", ws)
								add("as", as)
								add("dn", dn)
								h.judgeMagnet(m)
							}
						}
					}
				}
			}
		}
	}
	if mine() {
		for _, m := range []string{"", hexh, b32, "http://example.com/x.torrent", "magnet:", "magnet:?", "magnet:?xt", "magnet:?xt=%zz", "MAGNET:?xt=urn:btih:" + hexh, "magnet:?xt=urn:btih:" + hexh + "&xt=urn:btih:" + hexh,
			"magnet:?XT=urn:btih:" + hexh, ":", "magnet:?xt=urn:btih:" + hexh + "&tr=" + strings.Repeat("a", 5000), "\x00", "magnet:?xt=urn:btih:" + hexh + ";tr=x"} {
			h.judgeMagnet(m)
		}
		res.Sample(map[string]any{"magnet": "magnet:?xt=urn:btih:" + b32 + "&tr=zz://odd&ws=http://w.example/f&dn=a%26b%3Dc"})
	}
}

func (h *c13) judgeMagnet(m string) {
	h.res.Add("evaluations", 1)
	var t *Torrent
	var err error
	var pan any
	func() {
		defer func() { pan = recover() }()
		t, err = ReadMagnet("", m)
	}()
	rp := map[string]any{"kind": "magnet", "magnet": m}
	if pan != nil {
		h.res.Violate("C13/magnet-panic", fmt.Sprintf("ReadMagnet panicked: %v  [%q]", pan, m), rp)
		return
	}
	if err != nil || t == nil {
		h.nontriv[fmt.Sprintf("magnet/err=%v/nil=%v", err != nil, t == nil)] = true
		return
	}
	if len(t.Hash) != 20 {
		h.res.Violate("C13/magnet-hash-length", fmt.Sprintf("ReadMagnet produced a %d-byte hash  [%q]", len(t.Hash), m), rp)
		return
	}
	if t.InfoComplete() {
		h.res.Violate("C13/magnet-complete", "a magnet link produced a torrent with complete metadata", rp)
	}
	// the hash must be one of the xt values given (hex or base32), or the bare hash
	low := strings.ToLower(m)
	hx := fmt.Sprintf("%x", []byte(t.Hash))
	b32 := strings.ToLower(base32.StdEncoding.EncodeToString(t.Hash))
	if !strings.Contains(low, hx) && !strings.Contains(low, b32) {
		h.res.Violate("C13/magnet-hash", fmt.Sprintf("ReadMagnet's hash %s does not appear in the link  [%q]", hx, m), rp)
	}
	for _, tier := range t.trackers {
		for _, tr := range tier {
			if !strings.Contains(m, strings.NewReplacer(" ", "%20").Replace(tr.URL())) {
				h.res.Violate("C13/magnet-tracker", fmt.Sprintf("tracker %q was not in the link  [%q]", tr.URL(), m), rp)
			}
		}
	}
	for _, ws := range t.webseeds {
		if !strings.Contains(m, ws.URL()) {
			h.res.Violate("C13/magnet-webseed", fmt.Sprintf("web seed %q was not in the link  [%q]", ws.URL(), m), rp)
		}
		if !strings.HasPrefix(ws.URL(), "http://") && !strings.HasPrefix(ws.URL(), "https://") {
			h.res.Violate("C13/magnet-webseed-scheme", fmt.Sprintf("web seed %q has an unusable scheme", ws.URL()), rp)
		}
	}
	// well-formed http/udp trackers given must all be there
	for _, want := range []string{"http://t.example/a", "udp://t:1", "http://second/"} {
		if strings.Contains(m, "tr="+want+"&") && !strings.Contains(trackerTiers(t), want) {
			h.res.Violate("C13/magnet-tracker-lost", fmt.Sprintf("tracker %q given in the link was dropped  [%q]", want, m), rp)
		}
	}
	for _, want := range []string{"http://w.example/f", "http://as.example/x"} {
		if (strings.Contains(m, "ws="+want+"&") || strings.Contains(m, "as="+want+"&")) && !strings.Contains(webseedList2(t), want) {
			h.res.Violate("C13/magnet-webseed-lost", fmt.Sprintf("web seed %q given in the link was dropped  [%q]", want, m), rp)
		}
	}
	h.nontriv[fmt.Sprintf("magnet/ok/%s/%s/%s", trackerTiers(t), webseedList2(t), t.Name)] = true
}
