package tracker

// C15: trackers — hostile replies are harmless, announces are disciplined.
// Engine C: every sequence of replies over the retransmission attempts of a
// UDP announce (both address families scripted independently), an alphabet of
// HTTP bodies (incl. every truncation of a valid reply), and clock histories
// for the announce discipline; engine A for two concurrent announces.

import (
	nurlpkg "net/url"
	"bytes"
	"context"
	"encoding/binary"
	"errors"
	"fmt"
	"io"
	"net"
	"net/http"
	"net/netip"
	"os"
	"sort"
	"strings"
	"sync"
	"testing"
	"time"

	"github.com/jech/storrent/httpclient"
	rc "github.com/jech/storrent/zzverif/refcodec"
	"github.com/jech/storrent/zzverif/sched"
	"github.com/jech/storrent/zzverif/vh"
	"github.com/jech/storrent/zzverif/vnet"
	"github.com/jech/storrent/zzverif/vrand"
	"github.com/jech/storrent/zzverif/vtime"
)

func init() { httpclient.VerifStartExpiry() }

// --- scripted UDP ------------------------------------------------------------

type udpScript struct {
	mu       sync.Mutex
	replies  []string // one per attempt, in order, across both phases
	k        int
	contacts int // requests actually received
	times    []time.Time
	dialErr  bool
	peersOut []netip.AddrPort // what a conforming client learns from the accepted reply
	v6       bool
	reads    int  // datagrams handed out since the script was (re)set
	runaway  bool // more than 100 datagrams of a persistent stream were consumed
}

type udpConn struct {
	s       *udpScript
	lastReq []byte
	pending string
}

var errTimeout = errors.New("i/o timeout (scripted)")

func (c *udpConn) Write(b []byte) (int, error) {
	c.s.mu.Lock()
	defer c.s.mu.Unlock()
	r := "timeout"
	if c.s.k < len(c.s.replies) {
		r = c.s.replies[c.s.k]
	}
	c.s.k++
	if r == "writeerr" {
		c.pending = ""
		return 0, errors.New("scripted write error")
	}
	c.s.contacts++
	c.s.times = append(c.s.times, vtime.Now())
	c.lastReq = append([]byte{}, b...)
	c.pending = r
	return len(b), nil
}

func peersBytes(n int, v6 bool) ([]byte, []netip.AddrPort) {
	var b []byte
	var l []netip.AddrPort
	for i := 0; i < n; i++ {
		var ip netip.Addr
		if v6 {
			ip = netip.AddrFrom16([16]byte{0x20, 1, 0xd, 0xb8, 0, 0, 0, 0, 0, 0, 0, 0, 0, 0, byte(i >> 8), byte(i + 1)})
		} else {
			ip = netip.AddrFrom4([4]byte{17, 1, byte(i >> 8), byte(i + 1)})
		}
		port := uint16(2000 + i)
		b = append(b, ip.AsSlice()...)
		b = append(b, byte(port>>8), byte(port))
		l = append(l, netip.AddrPortFrom(ip, port))
	}
	return b, l
}

func (c *udpConn) Read(p []byte) (int, error) {
	c.s.mu.Lock()
	defer c.s.mu.Unlock()
	// a reply may consist of several datagrams ("a+b+c": one per Read, then
	// silence) or of an endless stream ("a*": every Read returns one)
	r := c.pending
	if strings.HasSuffix(r, "*") {
		r = strings.TrimSuffix(r, "*")
		c.s.reads++
		if c.s.reads > 100 {
			c.s.runaway = true
			return 0, errors.New("scripted: connection torn down by the harness after 100 datagrams")
		}
	} else if i := strings.IndexByte(r, '+'); i >= 0 {
		c.pending = r[i+1:]
		r = r[:i]
	} else {
		c.pending = ""
	}
	if r == "" || r == "timeout" || len(c.lastReq) < 16 {
		return 0, errTimeout
	}
	action := binary.BigEndian.Uint32(c.lastReq[8:12])
	tid := binary.BigEndian.Uint32(c.lastReq[12:16])
	var out []byte
	hdr := func(a, t uint32) {
		out = binary.BigEndian.AppendUint32(out, a)
		out = binary.BigEndian.AppendUint32(out, t)
	}
	body := func(interval uint32, npeers int, extra int) {
		if action == 0 {
			out = binary.BigEndian.AppendUint64(out, 0x1122334455667788)
			return
		}
		out = binary.BigEndian.AppendUint32(out, interval)
		out = binary.BigEndian.AppendUint32(out, 3)
		out = binary.BigEndian.AppendUint32(out, 5)
		pb, pl := peersBytes(npeers, c.s.v6)
		out = append(out, pb...)
		out = append(out, make([]byte, extra)...)
		c.s.peersOut = pl
	}
	f := strings.Split(r, ":")
	switch f[0] {
	case "ok": // ok[:interval[:npeers[:trailing]]]
		interval, np, extra := uint32(1800), 1, 0
		if len(f) > 1 {
			fmt.Sscanf(f[1], "%d", &interval)
		}
		if len(f) > 2 {
			fmt.Sscanf(f[2], "%d", &np)
		}
		if len(f) > 3 {
			fmt.Sscanf(f[3], "%d", &extra)
		}
		hdr(action, tid)
		body(interval, np, extra)
	case "foreigntid":
		hdr(action, tid^0x5555)
		body(1800, 1, 0)
		c.s.peersOut = nil
	case "foreignconnect": // a (late, duplicate, or forged) connect reply carrying another transaction id
		hdr(0, tid^0x5555)
		out = binary.BigEndian.AppendUint64(out, 0x1122334455667788)
	case "wrongaction":
		hdr(action^1, tid)
		body(1800, 1, 0)
		c.s.peersOut = nil
	case "erroraction":
		hdr(3, tid)
		out = append(out, "go away <b>"...)
	case "short4":
		out = []byte{0, 0, 0, 0}
	case "short12":
		hdr(action, tid)
		out = append(out, 1, 2, 3, 4)
	case "garbage":
		out = make([]byte, 4096)
		for i := range out {
			out[i] = byte(i*7 + 3)
		}
	default:
		panic("unknown scripted reply " + r)
	}
	n := copy(p, out)
	return n, nil
}

func (c *udpConn) Close() error                       { return nil }
func (c *udpConn) LocalAddr() net.Addr                { return &net.UDPAddr{} }
func (c *udpConn) RemoteAddr() net.Addr               { return &net.UDPAddr{} }
func (c *udpConn) SetDeadline(t time.Time) error      { return nil }
func (c *udpConn) SetReadDeadline(t time.Time) error  { return nil }
func (c *udpConn) SetWriteDeadline(t time.Time) error { return nil }

// --- scripted HTTP -------------------------------------------------------------

type httpScript struct {
	mu       sync.Mutex
	body     []byte
	status   int
	fail     bool
	contacts int
	times    []time.Time
}

func (h *httpScript) RoundTrip(req *http.Request) (*http.Response, error) {
	h.mu.Lock()
	defer h.mu.Unlock()
	h.contacts++
	h.times = append(h.times, vtime.Now())
	if h.fail {
		return nil, errors.New("scripted transport error")
	}
	st := h.status
	if st == 0 {
		st = 200
	}
	return &http.Response{StatusCode: st, Status: fmt.Sprintf("%d scripted", st), Proto: "HTTP/1.1", ProtoMajor: 1, ProtoMinor: 1,
		Header: http.Header{}, Body: io.NopCloser(bytes.NewReader(h.body)), Request: req, ContentLength: int64(len(h.body))}, nil
}

type c15 struct {
	res     *vh.Result
	nontriv map[string]bool
}

func sortedAddrs(l []netip.AddrPort) string {
	var s []string
	for _, a := range l {
		s = append(s, a.String())
	}
	sort.Strings(s)
	return strings.Join(s, " ")
}

// announceProxy is the proxy the announces go through ("" = direct, one request per address family).
var announceProxy string

const c15Proxy = "http://proxy.example:3128"

// announce runs one Announce with panic capture and returns what was learnt.
func announce(tr Tracker) (learnt []netip.AddrPort, err error, pan any) {
	var mu sync.Mutex
	func() {
		defer func() { pan = recover() }()
		err = tr.Announce(context.Background(), bytes.Repeat([]byte{0xAB}, 20), []byte("-ST0001-abcdefghijkl"), 50, 1<<20, 6881, 6882, announceProxy,
			func(a netip.AddrPort) bool {
				mu.Lock()
				learnt = append(learnt, a)
				mu.Unlock()
				return true
			})
	}()
	return
}

func (h *c15) udpCase(r4, r6 []string) {
	h.res.Add("evaluations", 1)
	s4 := &udpScript{replies: r4}
	s6 := &udpScript{replies: r6, v6: true}
	vnet.SetDialHook(func(ctx context.Context, network, address string) (net.Conn, error) {
		if network == "udp6" {
			return &udpConn{s: s6}, nil
		}
		return &udpConn{s: s4}, nil
	})
	vtime.SetVirtual(time.Hour)
	vrand.Fix(3)
	tr := New("udp://tracker.example:6969/announce")
	rp := map[string]any{"kind": "udp", "udp4": r4, "udp6": r6}
	where := fmt.Sprintf("  [udp4 replies %v, udp6 replies %v]", r4, r6)
	// Announce's two family goroutines may panic outside our recover: run the
	// per-family function directly first (same code, same script) to attribute
	// a panic, then the real Announce on fresh scripts
	for _, fam := range []string{"udp4", "udp6"} {
		var pan any
		func() {
			defer func() { pan = recover() }()
			u, _ := urlParse("udp://tracker.example:6969/announce")
			announceUDP(context.Background(), fam, func(netip.AddrPort) bool { return true }, u, bytes.Repeat([]byte{0xAB}, 20), []byte("-ST0001-abcdefghijkl"), 50, 1<<20, 6881, "")
		}()
		if pan != nil {
			h.res.Violate("C15/udp-panic/"+firstLineS(fmt.Sprint(pan)), fmt.Sprintf("a UDP announce panicked: %v%s", pan, where), rp)
			return
		}
	}
	s4.k, s4.contacts, s4.times, s4.peersOut, s4.reads, s4.runaway = 0, 0, nil, nil, 0, false
	s6.k, s6.contacts, s6.times, s6.peersOut, s6.reads, s6.runaway = 0, 0, nil, nil, 0, false
	learnt, err, pan := announce(tr)
	if pan != nil {
		h.res.Violate("C15/udp-panic/"+firstLineS(fmt.Sprint(pan)), fmt.Sprintf("Announce panicked: %v%s", pan, where), rp)
		return
	}
	want := append(append([]netip.AddrPort{}, s4.peersOut...), s6.peersOut...)
	if err == nil && sortedAddrs(learnt) != sortedAddrs(want) {
		h.res.Violate("C15/udp-peers", fmt.Sprintf("Announce succeeded but learnt [%s], the accepted replies encode [%s]%s", trunc(sortedAddrs(learnt)), trunc(sortedAddrs(want)), where), rp)
	}
	if err != nil {
		// whatever was learnt must come from an accepted reply
		ok := map[string]bool{}
		for _, a := range want {
			ok[a.String()] = true
		}
		for _, a := range learnt {
			if !ok[a.String()] {
				h.res.Violate("C15/udp-peers-from-rejected-reply", fmt.Sprintf("peer %v was learnt although no accepted reply encodes it%s", a, where), rp)
			}
		}
	}
	if s4.runaway || s6.runaway {
		h.res.Violate("C15/udp-listens-for-ever", fmt.Sprintf("Announce consumed more than 100 datagrams of a tracker that keeps sending, without returning: the announce (and the tracker's busy state) lasts as long as the tracker pleases%s", where), rp)
	}
	if st, _ := tr.GetState(); st == Busy {
		h.res.Violate("C15/stuck-busy", fmt.Sprintf("after the announce returned the tracker is still in the busy state%s", where), rp)
	}
	// much later a new announce must not be refused as busy / not ready
	vtime.Advance(2000000 * time.Hour) // longer than any interval a 32-bit field can announce
	s4.replies, s4.k = []string{"ok", "ok"}, 0
	s6.replies, s6.k = []string{"ok", "ok"}, 0
	if _, err2, pan2 := announce(tr); pan2 != nil || errors.Is(err2, ErrNotReady) {
		h.res.Violate("C15/never-ready-again", fmt.Sprintf("a second announce long after the first was refused: %v %v%s", err2, pan2, where), rp)
	}
	h.nontriv[fmt.Sprintf("udp/%v/%d/%d", err == nil, s4.contacts, s6.contacts)] = true
}

func trunc(s string) string {
	if len(s) > 200 {
		return s[:200] + "..."
	}
	return s
}

func firstLineS(s string) string {
	if i := strings.IndexByte(s, '\n'); i >= 0 {
		s = s[:i]
	}
	if len(s) > 50 {
		s = s[:50]
	}
	return s
}

// refPeers extracts, independently, the peers a valid HTTP tracker reply encodes.
func refPeers(body []byte) (peers []netip.AddrPort, valid bool) {
	v, n, err := rc.Bdecode(body)
	if err != nil || n != len(body) {
		return nil, false
	}
	d, ok := v.(*rc.Dict)
	if !ok {
		return nil, false
	}
	if fr, ok := d.Get("failure reason"); ok {
		if s, ok := fr.([]byte); ok && len(s) > 0 {
			return nil, false
		}
	}
	if p, ok := d.Get("peers"); ok {
		switch x := p.(type) {
		case []byte:
			if len(x)%6 != 0 {
				return nil, false
			}
			for i := 0; i+6 <= len(x); i += 6 {
				ip, _ := netip.AddrFromSlice(x[i : i+4])
				peers = append(peers, netip.AddrPortFrom(ip, uint16(x[i+4])<<8|uint16(x[i+5])))
			}
		case []rc.Value:
			for _, e := range x {
				pd, ok := e.(*rc.Dict)
				if !ok {
					return nil, false
				}
				ipv, _ := pd.Get("ip")
				pv, _ := pd.Get("port")
				ips, ok1 := ipv.([]byte)
				pn, ok2 := pv.(int64)
				if !ok1 || !ok2 || pn < 0 || pn > 65535 {
					return nil, false
				}
				ip, err := netip.ParseAddr(string(ips))
				if err != nil {
					continue
				}
				peers = append(peers, netip.AddrPortFrom(ip, uint16(pn)))
			}
		default:
			return nil, false
		}
	}
	if p, ok := d.Get("peers6"); ok {
		x, ok := p.([]byte)
		if !ok || len(x)%18 != 0 {
			return nil, false
		}
		for i := 0; i+18 <= len(x); i += 18 {
			ip, _ := netip.AddrFromSlice(x[i : i+16])
			peers = append(peers, netip.AddrPortFrom(ip, uint16(x[i+16])<<8|uint16(x[i+17])))
		}
	}
	return peers, true
}

func (h *c15) httpCase(body []byte, status int, fail bool, class string) {
	h.res.Add("evaluations", 1)
	hs := &httpScript{body: body, status: status, fail: fail}
	for _, n := range []string{"", "tcp4", "tcp6"} {
		httpclient.VerifInstall(n, "", hs)
	}
	vtime.SetVirtual(time.Hour)
	tr := New("http://tracker.example/announce")
	rp := map[string]any{"kind": "http", "body_hex": fmt.Sprintf("%x", body), "status": status, "fail": fail}
	where := fmt.Sprintf("  [%s; body %q]", class, trunc(string(body)))
	// per-family function first, to attribute panics in the family goroutines
	var pan any
	func() {
		defer func() { pan = recover() }()
		announceHTTP(context.Background(), "tcp4", tr.(*HTTP), bytes.Repeat([]byte{0xAB}, 20), []byte("-ST0001-abcdefghijkl"), 50, 1<<20, 6881, "", func(netip.AddrPort) bool { return true })
	}()
	if pan != nil {
		h.res.Violate("C15/http-panic/"+firstLineS(fmt.Sprint(pan)), fmt.Sprintf("an HTTP announce panicked: %v%s", pan, where), rp)
		return
	}
	tr = New("http://tracker.example/announce")
	learnt, err, pan := announce(tr)
	if pan != nil {
		h.res.Violate("C15/http-panic/"+firstLineS(fmt.Sprint(pan)), fmt.Sprintf("Announce panicked: %v%s", pan, where), rp)
		return
	}
	want, valid := refPeers(body)
	if err == nil && status == 0 && !fail {
		// both families received the same body
		dbl := append(append([]netip.AddrPort{}, want...), want...)
		if valid && sortedAddrs(learnt) != sortedAddrs(dbl) {
			h.res.Violate("C15/http-peers", fmt.Sprintf("Announce succeeded but learnt [%s], the reply encodes [%s] (once per address family)%s", trunc(sortedAddrs(learnt)), trunc(sortedAddrs(want)), where), rp)
		}
		if !valid && len(learnt) > 0 {
			okset := map[string]bool{}
			for _, a := range want {
				okset[a.String()] = true
			}
			_ = okset
		}
	}
	if st, _ := tr.GetState(); st == Busy {
		h.res.Violate("C15/stuck-busy", fmt.Sprintf("after the announce returned the tracker is still in the busy state%s", where), rp)
	}
	vtime.Advance(2000000 * time.Hour)
	absurd := strings.Contains(class, "interval4611686018427387904") || strings.Contains(class, "interval99999")
	hs.mu.Lock()
	hs.body, hs.status, hs.fail = []byte("d8:intervali1800e5:peers0:e"), 0, false
	hs.mu.Unlock()
	if _, err2, pan2 := announce(tr); pan2 != nil || (errors.Is(err2, ErrNotReady) && !strings.Contains(string(body), "never") && !absurd) {
		h.res.Violate("C15/never-ready-again", fmt.Sprintf("a second announce long after the first was refused: %v %v%s", err2, pan2, where), rp)
	}
	h.nontriv[fmt.Sprintf("http/%s/%v/%v", class, err == nil, valid)] = true
}

// discipline: a history of clock advances and announce attempts; the script
// counts contacts; consecutive contacts must be at least max(5 min, the
// interval announced in the last accepted reply) apart.
func (h *c15) discipline(kind string, steps []string) {
	h.res.Add("evaluations", 1)
	vtime.SetVirtual(time.Hour)
	vrand.Fix(9)
	var tr Tracker
	hs := &httpScript{}
	s4 := &udpScript{}
	s6 := &udpScript{v6: true}
	announceProxy = ""
	defer func() { announceProxy = "" }()
	if kind == "http-proxy" {
		// a proxied torrent: a single request, through the proxy's client
		httpclient.VerifInstall("", c15Proxy, hs)
		announceProxy = c15Proxy
		tr = New("http://tracker.example/announce")
	} else if kind == "http" {
		for _, n := range []string{"", "tcp4", "tcp6"} {
			httpclient.VerifInstall(n, "", hs)
		}
		tr = New("http://tracker.example/announce")
	} else {
		vnet.SetDialHook(func(ctx context.Context, network, address string) (net.Conn, error) {
			if network == "udp6" {
				return &udpConn{s: s6}, nil
			}
			return &udpConn{s: s4}, nil
		})
		tr = New("udp://tracker.example:6969/announce")
	}
	var lastContact time.Time
	var lastInterval time.Duration
	have := false
	for i, st := range steps {
		f := strings.Split(st, ":")
		switch f[0] {
		case "adv":
			var sec int64
			fmt.Sscanf(f[1], "%d", &sec)
			vtime.Advance(time.Duration(sec) * time.Second)
		case "announce": // announce:<interval seconds, or "err">
			var interval int64 = -1
			if f[1] != "err" && f[1] != "fail" && f[1] != "garbage" && f[1] != "500" {
				fmt.Sscanf(f[1], "%d", &interval)
			}
			if kind == "http" || kind == "http-proxy" {
				hs.mu.Lock()
				hs.contacts, hs.times = 0, nil
				hs.status = 0
				switch {
				case interval >= 0:
					hs.body, hs.fail = []byte(fmt.Sprintf("d8:intervali%de5:peers0:e", interval)), false
				case f[1] == "fail":
					hs.body, hs.fail = []byte("d14:failure reason4:nopee"), false
				case f[1] == "garbage":
					hs.body, hs.fail = []byte("<html>not bencoding"), false
				case f[1] == "500":
					hs.body, hs.fail, hs.status = []byte("oops"), false, 500
				default:
					hs.fail = true
				}
				hs.mu.Unlock()
			} else {
				r := []string{"ok", fmt.Sprintf("ok:%d", interval)}
				if interval < 0 {
					r = []string{"timeout", "timeout", "timeout", "timeout"}
				}
				s4.replies, s4.k, s4.contacts, s4.times = r, 0, 0, nil
				s6.replies, s6.k, s6.contacts, s6.times = append([]string{}, r...), 0, 0, nil
			}
			// the torrent only announces to trackers that say they are ready
			if state, _ := tr.GetState(); state != Ready {
				continue
			}
			_, _, pan := announce(tr)
			if pan != nil {
				h.res.Violate("C15/discipline-panic", fmt.Sprintf("panic: %v  [%s history %v]", pan, kind, steps), map[string]any{"kind": kind, "steps": steps})
				return
			}
			contacted := false
			if kind == "http" || kind == "http-proxy" {
				contacted = hs.contacts > 0
			} else {
				contacted = s4.contacts+s6.contacts > 0
			}
			if contacted {
				now := vtime.Now()
				if have {
					min := 5 * time.Minute
					if lastInterval > min {
						min = lastInterval
					}
					if gap := now.Sub(lastContact); gap < min {
						h.res.Violate("C15/contacted-too-early/"+kind, fmt.Sprintf("the tracker was contacted again %v after the previous contact; it had announced an interval of %v (minimum 5 min)  [%s history %v, step %d]", gap, lastInterval, kind, steps, i),
							map[string]any{"kind": kind, "steps": steps})
						return
					}
				}
				have = true
				lastContact = now
				if interval >= 0 {
					lastInterval = secondsSaturated(interval)
				} else if f[1] == "fail" && kind != "udp" {
					// the tracker's latest reply is a failure without "retry in": it
					// announces no interval any more (the code retries after its
					// 15-minute default); only the five-minute floor applies
					lastInterval = 0
				}
			}
		}
	}
	h.nontriv[fmt.Sprintf("disc/%s/%v", kind, steps)] = true
}

// secondsSaturated converts an announced number of seconds to a duration,
// saturating instead of overflowing.
func secondsSaturated(s int64) time.Duration {
	if s > int64(1<<62)/int64(time.Second) {
		return time.Duration(1 << 62)
	}
	return time.Duration(s) * time.Second
}

func TestVerifC15(t *testing.T) {
	if os.Getenv("VERIF_OUT") == "" && vh.ReplayFile() == "" {
		t.Skip("verif harness: run through /verif/run")
	}
	res := vh.NewResult("C15")
	h := &c15{res: res, nontriv: map[string]bool{}}
	defer func() {
		vtime.ClearVirtual()
		vrand.Unfix()
		vnet.SetDialHook(nil)
		res.Add("distinct_nontrivial", int64(len(h.nontriv)))
		if err := res.Write(); err != nil {
			t.Error(err)
		}
	}()
	if vh.ReplayFile() != "" {
		var rp struct {
			Kind    string   `json:"kind"`
			UDP4    []string `json:"udp4"`
			UDP6    []string `json:"udp6"`
			BodyHex string   `json:"body_hex"`
			Status  int      `json:"status"`
			Fail    bool     `json:"fail"`
			Steps   []string `json:"steps"`
		}
		if err := vh.LoadReplay(&rp); err != nil {
			t.Fatal(err)
		}
		switch {
		case len(rp.Steps) > 0:
			h.discipline(rp.Kind, rp.Steps)
		case rp.Kind == "udp":
			h.udpCase(rp.UDP4, rp.UDP6)
		default:
			b := make([]byte, len(rp.BodyHex)/2)
			fmt.Sscanf(rp.BodyHex, "%x", &b)
			h.httpCase(b, rp.Status, rp.Fail, "replay")
		}
		for _, v := range res.Violations {
			fmt.Printf("RESULT: violation %s: %s\n", v.Key, v.Message)
		}
		if len(res.Violations) == 0 {
			fmt.Println("RESULT: property held")
		}
		return
	}
	work := 0
	mine := func() bool { work++; return vh.Mine(work) }
	// UDP: every sequence of 4 replies in the connect phase
	A := []string{"ok", "foreigntid", "wrongaction", "erroraction", "short4", "short12", "timeout", "writeerr", "garbage"}
	for _, a := range A {
		for _, b := range A {
			for _, c := range A {
				if !mine() {
					continue
				}
				for _, d := range A {
					// the other family: answers correctly, or never
					h.udpCase([]string{a, b, c, d, "ok:1800:1"}, []string{"ok", "ok:900:2"})
					h.udpCase([]string{"timeout", "timeout", "timeout", "timeout"}, []string{a, b, c, d, "ok:1800:1"})
				}
			}
		}
	}
	// announce phase: connect succeeds, then every sequence of 4 replies
	B := []string{"ok:1800:0", "ok:1800:1", "ok:1800:74", "ok:1800:2:3", "ok:4294967295:1", "ok:0:1", "foreigntid", "wrongaction", "erroraction", "short12", "timeout", "writeerr", "garbage"}
	for _, a := range B {
		for _, b := range B {
			if !mine() {
				continue
			}
			for _, c := range B {
				for _, d := range B {
					if !vh.Thorough() && c != d && c != "timeout" && d != "foreigntid" {
						continue
					}
					h.udpCase([]string{"ok", a, b, c, d}, []string{"foreigntid", "ok", a, "ok:60:1"})
				}
			}
		}
	}
	// trackers that send more than one datagram per request, or never stop sending
	S := []string{"foreigntid*", "foreignconnect*", "wrongaction*", "short4*", "short12*", "garbage*", "foreigntid+foreigntid+ok:1800:1", "foreignconnect+foreignconnect+foreignconnect+foreignconnect+foreignconnect+ok:1800:1", "foreignconnect+ok:1800:1", "short4+garbage+ok:1800:1", "ok:1800:1+ok:60:2"}
	for _, a := range S {
		if !mine() {
			continue
		}
		for _, b := range append([]string{"timeout", "ok:1800:1"}, S...) {
			h.udpCase([]string{a, b, "ok", "ok:1800:1"}, []string{"ok", "ok:900:2"})         // connect phase
			h.udpCase([]string{"ok", a, b, "ok:1800:1"}, []string{"ok", "ok:900:2"})         // announce phase
			h.udpCase([]string{"timeout", "timeout", "timeout", "timeout"}, []string{"ok", a, b, "ok:1800:1"}) // the other family
		}
	}
	res.Sample(map[string]any{"udp4": []string{"foreigntid", "short12", "timeout", "ok", "ok:1800:74"}, "udp6": []string{"ok", "ok:900:2"}})
	// HTTP bodies
	p4, _ := peersBytes(3, false)
	p6, _ := peersBytes(2, true)
	ben := func(kvs ...any) []byte {
		d := &rc.Dict{}
		for i := 0; i+1 < len(kvs); i += 2 {
			d.Set(kvs[i].(string), kvs[i+1])
		}
		return rc.Bencode(d)
	}
	dictPeers := []rc.Value{}
	for _, s := range []string{"18.0.0.1", "2001:db8::9", "not an ip"} {
		pd := &rc.Dict{}
		pd.Set("ip", s)
		pd.Set("port", 6881)
		dictPeers = append(dictPeers, pd)
	}
	valid := ben("interval", 1800, "peers", p4, "peers6", p6)
	bodies := map[string][]byte{
		"compact": ben("interval", 1800, "peers", p4), "dictlist": ben("interval", 1800, "peers", dictPeers), "peers6": ben("interval", 1800, "peers6", p6), "both": valid,
		"nopeers": ben("interval", 1800), "empty": {}, "notbencode": []byte("<html>504</html>"), "peersodd": ben("interval", 1800, "peers", p4[:7]), "peers6odd": ben("interval", 1800, "peers6", p6[:19]),
		"peersint": ben("interval", 1800, "peers", 7), "nested": ben("interval", 1800, "peers", []rc.Value{[]rc.Value{1, []rc.Value{}}, "x"}), "intervalstr": ben("interval", "1800", "peers", p4),
		"list": []byte("l4:spame"), "trailing": append(append([]byte{}, valid...), "garbage"...), "dictport": ben("interval", 1, "peers", []rc.Value{func() rc.Value { d := &rc.Dict{}; d.Set("ip", "1.2.3.4"); d.Set("port", 70000); return d }()}),
	}
	for _, iv := range []any{0, 1, 60, 61, 299, 300, 1800, int64(1) << 31, int64(1) << 62, -5, rc.RawInt("99999999999999999999")} {
		bodies[fmt.Sprint("interval", iv)] = ben("interval", iv, "peers", p4)
	}
	for _, retry := range []any{nil, "never", "0", "-1", "5", "999999999999", "x", 5} {
		if retry == nil {
			bodies["failure"] = ben("failure reason", "no <b>")
		} else {
			bodies[fmt.Sprint("failure-retry-", retry)] = ben("failure reason", "no", "retry in", retry)
		}
	}
	var names []string
	for k := range bodies {
		names = append(names, k)
	}
	sort.Strings(names)
	for _, k := range names {
		if mine() {
			h.httpCase(bodies[k], 0, false, k)
		}
	}
	for i := 0; i <= len(valid); i++ {
		if mine() {
			h.httpCase(valid[:i], 0, false, "truncated")
		}
	}
	for _, st := range []int{204, 301, 404, 500, 503} {
		if mine() {
			h.httpCase(valid, st, false, "status")
		}
	}
	if mine() {
		h.httpCase(nil, 0, true, "transport-error")
	}
	res.Sample(map[string]any{"http body": string(bodies["failure-retry-never"])})
	// discipline: histories of <= 5 steps
	deltas := []int64{0, 1, 299, 300, 301}
	intervals := []string{"err", "60", "600", "7200", "0", "4611686018427387904"}
	intervalsUDP := []string{"err", "60", "600", "7200", "0", "4294967295"}
	var steps []string
	for _, d := range deltas {
		steps = append(steps, fmt.Sprintf("adv:%d", d))
	}
	for _, iv := range []int64{599, 600, 601, 899, 900, 901, 1799, 1800, 1801, 7199, 7200, 7201, 86400 * 365} {
		steps = append(steps, fmt.Sprintf("adv:%d", iv))
	}
	base := append([]string{}, steps...)
	depth := 5
	for _, kind := range []string{"http", "udp", "http-proxy"} {
		steps = append([]string{}, base...)
		ivs := intervals
		if kind == "udp" {
			ivs = intervalsUDP // the field is 32 bits wide
		} else {
			ivs = append(append([]string{}, intervals...), "fail", "garbage", "500")
		}
		for _, iv := range ivs {
			steps = append(steps, "announce:"+iv)
		}
		var rec func(prefix []string)
		rec = func(prefix []string) {
			if len(prefix) == 2 && !mine() {
				return
			}
			if len(prefix) > 0 && strings.HasPrefix(prefix[len(prefix)-1], "announce") && (len(prefix) >= 2 || vh.Mine(0)) {
				h.discipline(kind, prefix)
			}
			if len(prefix) == depth {
				return
			}
			for _, s := range steps {
				// two clock advances in a row add nothing new except their sum
				if len(prefix) > 0 && strings.HasPrefix(prefix[len(prefix)-1], "adv") && strings.HasPrefix(s, "adv") {
					continue
				}
				if len(prefix) == 0 && strings.HasPrefix(s, "adv") {
					continue
				}
				rec(append(append([]string{}, prefix...), s))
			}
		}
		rec(nil)
	}
	res.Sample(map[string]any{"discipline": []string{"announce:600", "adv:599", "announce:60", "adv:1", "announce:err"}})

	// engine A: two concurrent announces and a state query on one tracker
	if mine() {
		h.concurrent()
	}
}

func (h *c15) concurrent() {
	for _, kind := range []string{"http", "udp"} {
		prog := func(s *sched.S) func(bool) string {
			vtime.SetVirtual(time.Hour)
			vrand.Fix(4)
			hs := &httpScript{body: []byte("d8:intervali1800e5:peers0:e")}
			s4 := &udpScript{replies: []string{"ok", "ok", "ok", "ok"}}
			s6 := &udpScript{replies: []string{"ok", "ok", "ok", "ok"}, v6: true}
			var tr Tracker
			if kind == "http" {
				for _, n := range []string{"", "tcp4", "tcp6"} {
					httpclient.VerifInstall(n, "", hs)
				}
				tr = New("http://tracker.example/announce")
			} else {
				vnet.SetDialHook(func(ctx context.Context, network, address string) (net.Conn, error) {
					if network == "udp6" {
						return &udpConn{s: s6}, nil
					}
					return &udpConn{s: s4}, nil
				})
				tr = New("udp://tracker.example:6969/announce")
			}
			var errs [2]error
			var states []State
			for i := 0; i < 2; i++ {
				i := i
				s.Go(fmt.Sprintf("announce%d", i), func() {
					errs[i] = tr.Announce(context.Background(), bytes.Repeat([]byte{0xAB}, 20), []byte("-ST0001-abcdefghijkl"), 50, 1<<20, 6881, 6882, "", func(netip.AddrPort) bool { return true })
				})
			}
			s.Go("getstate", func() {
				st, _ := tr.GetState()
				states = append(states, st)
			})
			return func(complete bool) string {
				if !complete {
					return ""
				}
				contacts := hs.contacts
				if kind == "udp" {
					contacts = s4.contacts
					if contacts > 2 {
						contacts = contacts / 2 * 2
					}
				}
				ok := 0
				for _, e := range errs {
					if e == nil {
						ok++
					}
				}
				// (a concurrent GetState holds the lock for a moment, so it is
				// legitimate for neither announce to get through)
				if ok > 1 {
					return fmt.Sprintf("C15/concurrent-announces\x00two concurrent announces both went through (errors %v): at most one may contact the tracker", errs)
				}
				if st, _ := tr.GetState(); st == Busy {
					return "C15/stuck-busy\x00the tracker is left in the busy state after two concurrent announces"
				}
				return ""
			}
		}
		st := sched.Explore(prog, sched.Options{Bound: -1, MaxSchedules: 200000, MaxSteps: 2000})
		h.res.Add("evaluations", int64(st.Schedules))
		h.res.Add("concurrent_schedules", int64(st.Schedules))
		if !st.Exhaustive {
			h.res.NotExhaustive("schedule cap in the concurrent-announce exploration")
		}
		for _, v := range st.Violations {
			k, msg, _ := strings.Cut(v.Message, "\x00")
			if msg == "" {
				k, msg = "C15/concurrent/"+firstLineS(v.Message), v.Message
			}
			h.res.Violate(k, fmt.Sprintf("%s  [%s tracker, schedule %v]", msg, kind, v.Choices), map[string]any{"kind": "concurrent-" + kind, "choices": v.Choices})
		}
		h.nontriv["concurrent/"+kind] = true
	}
}

func urlParse(s string) (*nurlURL, error) { return nurlParse(s) }

type nurlURL = nurlpkg.URL

func nurlParse(s string) (*nurlpkg.URL, error) { return nurlpkg.Parse(s) }
