package httpclient

// Injected by /verif (build-time overlay only): lets a harness install a
// scripted http.RoundTripper for a (network, proxy) key so that trackers and
// web seeds talk to the harness instead of the network.

import (
	"net/http"
	"time"
)

// VerifInstall makes Get(network, proxy) return a client using rt.
func VerifInstall(network, proxy string, rt http.RoundTripper) {
	// start the expiry goroutine from outside any bubble
	mu.Lock()
	clients[key{network: network, proxy: proxy}] = client{
		client: &http.Client{Transport: rt},
		// never expired by the background goroutine
		time: time.Date(2200, 1, 1, 0, 0, 0, 0, time.UTC),
	}
	mu.Unlock()
}

// VerifStartExpiry triggers the once-started expiry goroutine; call it from
// outside any synctest bubble (a bubble never ends while a goroutine started
// inside it is alive).
func VerifStartExpiry() {
	Get("verif-warmup", "")
	mu.Lock()
	delete(clients, key{network: "verif-warmup"})
	mu.Unlock()
}
