//go:build linux
// +build linux

package fuse

// C20 (FUSE side) and C02 (concurrent FUSE reads): the node methods are called
// directly, without mounting.

import (
	"bytes"
	"context"
	"fmt"
	"os"
	"sort"
	"strings"
	"sync"
	"testing"

	bfuse "bazil.org/fuse"
	"bazil.org/fuse/fs"

	"github.com/jech/storrent/config"
	"github.com/jech/storrent/peer"
	"github.com/jech/storrent/zzverif/fixture"
	"github.com/jech/storrent/zzverif/vh"
)

type ffront struct {
	res     *vh.Result
	nontriv map[string]bool
}

func (h *ffront) viol(key, format string, a ...any) {
	msg := fmt.Sprintf(format, a...)
	h.res.Violate(key, msg, map[string]any{"detail": msg})
}

func f(p string, l int64) fixture.File { return fixture.File{Path: strings.Split(p, "/"), Length: l} }
func pad(p string, l int64) fixture.File {
	return fixture.File{Path: strings.Split(p, "/"), Length: l, Padding: true}
}

type flayout struct {
	Name  string
	Files []fixture.File
}

func flayouts(thorough bool) []flayout {
	var out []flayout
	for _, n := range []string{"a", "a b", "é", "x?y", "#h", "a'b\"c", "%2F"} {
		out = append(out, flayout{n, []fixture.File{{Length: 40000}}})
	}
	multi := [][]fixture.File{
		{f("a", 100)},
		{f("d/a", 100), f("d/b", 16384), f("d/e/a", 20000)},
		{f("ab", 10), f("abc", 20), f("ab c", 30)},
		{f("a", 0), f("b", 16385), f("c", 0)},
		{f("a", 100), pad(".pad/1", 16284), f("b", 40000)},
		{f("d/a", 1), f("D/a", 2), f("d/A", 3)},
		{f("a/1", 10), f("b/2", 20), f("a/3", 30)},
		{f("x/y/z/w", 5), f("x/y/q", 6), f("x/p", 7), f("r", 8)},
		{f("é/ü", 16384), f("é/#", 1)},
		{f("a", 100), pad(".pad/1", 16284), f("d/b", 40000), pad("d/.pad", 9000), f("d/c", 1)},
		// padding files inside directories, before / between / after the directory's real files
		{f("data/1.bin", 1000), pad("data2/.pad/15384", 15384), f("data2/2.bin", 16384), f("data2/3.bin", 5)},
		{pad("d/.pad/1", 100), f("d/x", 16284), pad("d/e/.pad/2", 7), f("d/e/y", 9)},
		{f("d/x", 10), pad("d/x.pad", 16374), f("d/y", 10), pad("z", 6), f("zz", 1)},
	}
	for i, m := range multi {
		out = append(out, flayout{fmt.Sprintf("fm%d", i), m})
	}
	if thorough {
		names := []string{"a", "a b", "é", "ab"}
		var paths []string
		for _, a := range names {
			paths = append(paths, a)
			for _, b := range names[:2] {
				paths = append(paths, a+"/"+b, a+"/"+b+"/"+a)
			}
		}
		for i := 0; i < len(paths); i++ {
			for j := i + 1; j < len(paths); j++ {
				if strings.HasPrefix(paths[j], paths[i]+"/") || strings.HasPrefix(paths[i], paths[j]+"/") {
					continue
				}
				out = append(out, flayout{fmt.Sprintf("fs%d_%d", i, j), []fixture.File{f(paths[i], 100), f(paths[j], 17000)}})
			}
		}
	}
	return out
}

func readAll(h *ffront, hd fs.Handle, off int64, size int) ([]byte, error) {
	rd := hd.(fs.HandleReader)
	req := &bfuse.ReadRequest{Offset: off, Size: size}
	resp := &bfuse.ReadResponse{Data: make([]byte, 0, size)}
	err := rd.Read(context.Background(), req, resp)
	return resp.Data, err
}

func (h *ffront) checkLayout(l flayout) {
	fx, err := fixture.Build(l.Name, l.Files, 16384, nil)
	if err != nil {
		h.res.Add("layouts_rejected", 1)
		return
	}
	defer fx.Close()
	ctx := context.Background()
	desc := fmt.Sprintf("[torrent %q]", l.Name)
	node, err := root(0).Lookup(ctx, l.Name)
	h.res.Add("evaluations", 1)
	if err != nil {
		h.viol("C20/fuse-root-lookup", "root.Lookup(%q) failed: %v", l.Name, err)
		return
	}
	ents, _ := root(0).ReadDirAll(ctx)
	found := 0
	for _, e := range ents {
		if e.Name == l.Name {
			found++
		}
	}
	if found != 1 {
		h.viol("C20/fuse-root-listing", "the torrent appears %d times in the root directory %s", found, desc)
	}
	// expected: non-padding files
	type want struct {
		off, ln int64
	}
	expect := map[string]want{}
	single := len(fx.Files) == 1 && fx.Files[0].Path == nil
	if single {
		expect[""] = want{0, fx.Files[0].Length}
	} else {
		for i, fl := range fx.Files {
			if fl.Padding {
				continue
			}
			k := strings.Join(fl.Path, "/")
			if _, dup := expect[k]; !dup {
				expect[k] = want{fx.Offset[i], fl.Length}
			}
		}
	}
	got := map[string]int{}
	checkFile := func(n fs.Node, rel string) {
		got[rel]++
		w, ok := expect[rel]
		if !ok {
			h.viol("C20/fuse-unlisted-file", "the FUSE tree contains %q, which is not a (non-padding) file of the torrent %s", rel, desc)
			return
		}
		var a bfuse.Attr
		h.res.Add("evaluations", 1)
		if err := n.Attr(ctx, &a); err != nil {
			h.viol("C20/fuse-attr", "Attr(%q) failed: %v %s", rel, err, desc)
			return
		}
		if a.Size != uint64(w.ln) || a.Mode.IsDir() {
			h.viol("C20/fuse-size", "%q: size %d mode %v, the file has %d bytes %s", rel, a.Size, a.Mode, w.ln, desc)
		}
		op, ok := n.(fs.NodeOpener)
		if !ok {
			h.viol("C20/fuse-open", "%q cannot be opened %s", rel, desc)
			return
		}
		hd, err := op.Open(ctx, &bfuse.OpenRequest{Flags: bfuse.OpenReadOnly}, &bfuse.OpenResponse{})
		if err != nil {
			h.viol("C20/fuse-open", "Open(%q) failed: %v %s", rel, err, desc)
			return
		}
		truth := fx.Truth[w.off : w.off+w.ln]
		data, err := readAll(h, hd, 0, int(w.ln)+10)
		h.res.Add("evaluations", 1)
		if err != nil || !bytes.Equal(data, truth) {
			h.viol("C20/fuse-read", "reading %q through FUSE returned %d bytes (err %v) that are not the file's content %s", rel, len(data), err, desc)
		}
		// offset reads, and two concurrent reads on one handle (C02)
		if w.ln > 2 {
			var wg sync.WaitGroup
			for _, o := range []int64{1, w.ln / 2, w.ln - 1, w.ln, w.ln + 5} {
				wg.Add(1)
				o := o
				go func() {
					defer wg.Done()
					d, err := readAll(h, hd, o, 5000)
					end := o + 5000
					if end > w.ln {
						end = w.ln
					}
					var exp []byte
					if o < w.ln {
						exp = truth[o:end]
					}
					h.res.Add("evaluations", 1)
					if err != nil || !bytes.Equal(d, exp) {
						h.viol("C02/fuse-offset-read", "concurrent FUSE read of %q at %d returned %d bytes (err %v), expected %d bytes of true content %s", rel, o, len(d), err, len(exp), desc)
					}
				}()
			}
			wg.Wait()
		}
		if rl, ok := hd.(fs.HandleReleaser); ok {
			rl.Release(ctx, &bfuse.ReleaseRequest{})
		}
		// write access is refused
		if _, err := op.Open(ctx, &bfuse.OpenRequest{Flags: bfuse.OpenWriteOnly}, &bfuse.OpenResponse{}); err == nil {
			h.viol("C20/fuse-writable", "%q could be opened for writing %s", rel, desc)
		}
		h.nontriv["fuse/"+l.Name+"/"+rel] = true
	}
	var walk func(n fs.Node, rel string, depth int)
	walk = func(n fs.Node, rel string, depth int) {
		if depth > 8 {
			h.viol("C20/fuse-depth", "the FUSE tree is deeper than any path of the torrent %s", desc)
			return
		}
		dir, isDir := n.(fs.HandleReadDirAller)
		if !isDir {
			checkFile(n, rel)
			return
		}
		var a bfuse.Attr
		if err := n.Attr(ctx, &a); err != nil || !a.Mode.IsDir() {
			h.viol("C20/fuse-dir-attr", "directory %q: Attr err %v mode %v %s", rel, err, a.Mode, desc)
		}
		ents, err := dir.ReadDirAll(ctx)
		h.res.Add("evaluations", 1)
		if err != nil {
			h.viol("C20/fuse-readdir", "ReadDirAll(%q) failed: %v %s", rel, err, desc)
			return
		}
		names := map[string]int{}
		for _, e := range ents {
			names[e.Name]++
			if e.Name == "." || e.Name == ".." {
				continue
			}
			child := e.Name
			if rel != "" {
				child = rel + "/" + e.Name
			}
			lk := n.(fs.NodeStringLookuper)
			cn, err := lk.Lookup(ctx, e.Name)
			h.res.Add("evaluations", 1)
			if err != nil {
				h.viol("C20/fuse-dirent-unresolvable", "directory %q lists %q but Lookup fails: %v %s", rel, e.Name, err, desc)
				continue
			}
			_, childIsDir := cn.(fs.HandleReadDirAller)
			if childIsDir != (e.Type == bfuse.DT_Dir) {
				h.viol("C20/fuse-dirent-type", "%q is listed as type %v but Lookup returns dir=%v %s", child, e.Type, childIsDir, desc)
			}
			walk(cn, child, depth+1)
		}
		for nme, c := range names {
			if c > 1 {
				h.viol("C20/fuse-duplicate-dirent", "directory %q lists %q %d times %s", rel, nme, c, desc)
			}
		}
		// absent names
		lk := n.(fs.NodeStringLookuper)
		for _, bad := range []string{"nonexistent", "", " ", "..x", strings.ToUpper(rel) + "Q", "a/b"} {
			if names[bad] > 0 {
				continue
			}
			h.res.Add("evaluations", 1)
			if cn, err := lk.Lookup(ctx, bad); err == nil {
				// a name may legitimately exist without being listed only if it is a padding file
				_ = cn
				h.viol("C20/fuse-phantom-lookup", "Lookup(%q) in directory %q of the torrent succeeded although nothing of that name is listed %s", bad, rel, desc)
			}
		}
	}
	if single {
		checkFile(node, "")
	} else {
		walk(node, "", 0)
	}
	for k := range expect {
		if got[k] != 1 {
			h.viol("C20/fuse-file-missing-or-twice", "file %q is reached %d times by a recursive walk of the FUSE tree %s", k, got[k], desc)
		}
	}
}

func TestVerifC20FUSE(t *testing.T) {
	if os.Getenv("VERIF_OUT") == "" {
		t.Skip("verif harness: run through /verif/run")
	}
	peer.VerifReset()
	config.SetDefaultProxy("")
	config.MemoryMark = 1 << 30
	config.DefaultDhtMode = config.DhtNone
	config.SetIdleRate(0)
	res := vh.NewResult("C20")
	h := &ffront{res: res, nontriv: map[string]bool{}}
	defer func() {
		res.Add("distinct_nontrivial", int64(len(h.nontriv)))
		i, _ := vh.Shard()
		os.Setenv("VERIF_SHARD", fmt.Sprintf("%d/100", 70+i))
		if err := res.Write(); err != nil {
			t.Error(err)
		}
	}()
	for i, l := range flayouts(vh.Thorough()) {
		if vh.Mine(i) {
			h.checkLayout(l)
		}
	}
	// GetByName with two torrents of the same name: both insertion orders
	if vh.Mine(0) {
		for _, order := range [][2]int64{{100, 200}, {200, 100}} {
			a, err1 := fixture.Build("twin", []fixture.File{{Length: order[0]}}, 16384, nil)
			b, err2 := fixture.Build("twin", []fixture.File{{Length: order[1]}}, 16384, nil)
			if err1 != nil || err2 != nil {
				continue
			}
			n, err := root(0).Lookup(context.Background(), "twin")
			if err != nil {
				h.viol("C20/fuse-twins", "two torrents of the same name: Lookup failed %v", err)
			} else {
				var at bfuse.Attr
				n.Attr(context.Background(), &at)
				res.Distinct("twin_sizes", fmt.Sprint(at.Size))
				hs := []string{a.Tor.Hash.String(), b.Tor.Hash.String()}
				sort.Strings(hs)
				wantSize := uint64(order[0])
				if hs[0] != a.Tor.Hash.String() {
					wantSize = uint64(order[1])
				}
				if at.Size != wantSize {
					h.viol("C20/fuse-twins", "with two torrents called %q the name resolves to the one of %d bytes, expected the smaller hash (%d bytes)", "twin", at.Size, wantSize)
				}
			}
			a.Close()
			b.Close()
		}
	}
	res.Sample(map[string]any{"layout": "fm4", "files": []string{"a", ".pad/1 (padding)", "b"}})
}
