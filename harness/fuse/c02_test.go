package fuse

// C02 at the FUSE front end: an open file handle behaves like a file holding
// the true bytes, for every history (up to a depth) of reads, reads whose
// request was already interrupted when it reached the handle, pairs of
// concurrent reads, and reads interrupted while they wait for data that a
// later step supplies; after each history the handle is released.  Every step
// runs inside a synctest bubble, so "does not return" is decided exactly (all
// goroutines durably blocked, then an hour of virtual time), not by a
// wall-clock timeout.
//
// An interrupted request meets a two-armed select in handle.Read (context done
// / per-handle semaphore free); Go picks among ready arms at random and the
// harness cannot steer that choice, so each "interrupted read" step issues 24
// of them: both arms are taken in every execution except with probability
// 2^-23 (stated in the evidence as an assumption).

import (
	"bytes"
	"context"
	"fmt"
	"os"
	"strings"
	"testing"
	"testing/synctest"
	"time"

	bfuse "bazil.org/fuse"
	"bazil.org/fuse/fs"

	"github.com/jech/storrent/config"
	"github.com/jech/storrent/peer"
	"github.com/jech/storrent/zzverif/fixture"
	"github.com/jech/storrent/zzverif/vh"
)

type fop struct {
	name string
	off  int64
	size int
}

func TestVerifC02FUSE(t *testing.T) {
	if os.Getenv("VERIF_OUT") == "" && vh.ReplayFile() == "" {
		t.Skip("verif harness: run through /verif/run")
	}
	res := vh.NewResult("C02")
	nontriv := map[string]bool{}
	defer func() {
		res.Add("distinct_nontrivial", int64(len(nontriv)))
		vh.ClearCheckpoint("C02")
		if err := res.Write(); err != nil {
			t.Error(err)
		}
	}()
	// file "b" (40000 bytes) starts at offset 100 of the torrent and spans pieces 0..2
	files := []fixture.File{{Path: []string{"a"}, Length: 100}, {Path: []string{"d", "b"}, Length: 40000}, {Path: []string{"c"}, Length: 9052}}
	alphabet := []fop{
		{"read", 0, 100}, {"read", 16284, 200}, {"read", 39990, 100}, {"read", 0, 40000},
		{"interrupted", 0, 100}, {"interrupted", 30000, 5000},
		{"pair", 0, 20000},
		{"evict-read-interrupt", 16284, 200}, {"evict-read-supply", 16284, 200},
	}
	depth := 3
	if vh.Thorough() {
		depth = 4
	}
	work := 0
	var seq []int
	var rec func()
	run := func(seq []int) {
		var names []string
		for _, k := range seq {
			names = append(names, fmt.Sprintf("%s(%d,%d)", alphabet[k].name, alphabet[k].off, alphabet[k].size))
		}
		desc := "[history " + strings.Join(names, " ") + " release]"
		res.Add("evaluations", 1)
		res.Add("transitions", int64(len(seq)+1))
		res.Add("states", 1)
		res.Add("traces_validated_against_impl", 1)
		viol := func(key, format string, a ...any) {
			if !res.HasViolation(key) {
				res.Violate(key, fmt.Sprintf(format, a...)+" "+desc, map[string]any{"history": names})
			}
		}
		var outcome []string
		vh.CheckpointKey("C02", "C02/fuse-crash", map[string]any{"history": names})
		// (real-time watchdog: a history normally takes milliseconds; a reader that
		// spins keeps the bubble from ever becoming quiescent)
		stopGuard := vh.Guard("C02", "C02/fuse-does-not-terminate", map[string]any{"history": names}, 120*time.Second)
		defer stopGuard()
		synctest.Test(t, func(t *testing.T) {
			peer.VerifReset()
			config.SetDefaultProxy("")
			config.MemoryMark = 1 << 30
			config.DefaultDhtMode = config.DhtNone
			config.DefaultUseTrackers = false
			config.DefaultUseWebseeds = false
			config.SetIdleRate(0)
			fx, err := fixture.Build("c02fuse", files, 16384, nil)
			if err != nil {
				panic(err)
			}
			defer func() {
				fx.Close()
				synctest.Wait()
			}()
			ctx := context.Background()
			n, err := root(0).Lookup(ctx, "c02fuse")
			if err == nil {
				n, err = n.(fs.NodeStringLookuper).Lookup(ctx, "d")
			}
			if err == nil {
				n, err = n.(fs.NodeStringLookuper).Lookup(ctx, "b")
			}
			if err != nil {
				panic(fmt.Sprint("lookup: ", err))
			}
			hd, err := n.(fs.NodeOpener).Open(ctx, &bfuse.OpenRequest{Flags: bfuse.OpenReadOnly}, &bfuse.OpenResponse{})
			if err != nil {
				panic(fmt.Sprint("open: ", err))
			}
			rd := hd.(fs.HandleReader)
			truth := fx.Truth[100 : 100+40000]
			type result struct {
				data []byte
				err  error
			}
			start := func(c context.Context, o fop) chan result {
				ch := make(chan result, 1)
				go func() {
					req := &bfuse.ReadRequest{Offset: o.off, Size: o.size}
					resp := &bfuse.ReadResponse{Data: make([]byte, 0, o.size)}
					err := rd.Read(c, req, resp)
					ch <- result{resp.Data, err}
				}()
				return ch
			}
			// wait reports the result, or ok=false if the call never returns
			wait := func(ch chan result) (result, bool) {
				synctest.Wait()
				select {
				case r := <-ch:
					return r, true
				default:
				}
				time.Sleep(time.Hour)
				synctest.Wait()
				select {
				case r := <-ch:
					return r, true
				default:
					return result{}, false
				}
			}
			judge := func(o fop, r result) {
				want := truth[o.off:]
				if len(want) > o.size {
					want = want[:o.size]
				}
				if r.err != nil {
					viol("C02/fuse-read-error", "an uninterrupted read of (%d,%d) failed: %v", o.off, o.size, r.err)
				} else if !bytes.Equal(r.data, want) {
					viol("C02/fuse-wrong-bytes", "read (%d,%d) returned %d bytes that are not bytes [%d,%d) of the file", o.off, o.size, len(r.data), o.off, o.off+int64(len(want)))
				}
			}
			evict := func() {
				fx.Tor.Pieces.Expire(0, nil, func(i uint32) { fx.Tor.Have(i, false) })
				synctest.Wait()
			}
			// supply: the missing pieces arrive and are verified, and the torrent
			// is told so (what finalisePiece does)
			supply := func() {
				var missing []uint32
				for i := 0; i < fx.Tor.Pieces.Num(); i++ {
					if !fx.Tor.Pieces.Complete(uint32(i)) {
						missing = append(missing, uint32(i))
					}
				}
				if err := fx.Fill(); err != nil {
					panic(err)
				}
				for _, i := range missing {
					fx.Tor.Have(i, true)
				}
				synctest.Wait()
			}
			hung := false
		steps:
			for _, k := range seq {
				o := alphabet[k]
				switch o.name {
				case "read":
					r, ok := wait(start(ctx, o))
					if !ok {
						viol("C02/fuse-read-hangs", "a read of (%d,%d) of fully available data never returned", o.off, o.size)
						hung = true
						break steps
					}
					judge(o, r)
					outcome = append(outcome, fmt.Sprint(len(r.data), r.err))
				case "interrupted":
					// the request was interrupted before it reached the handle
					eintr := 0
					for i := 0; i < 24; i++ {
						c, cancel := context.WithCancel(ctx)
						cancel()
						r, ok := wait(start(c, o))
						if !ok {
							viol("C02/fuse-interrupted-read-hangs", "a read whose request was already interrupted never returned")
							hung = true
							break steps
						}
						if r.err != nil {
							eintr++
						} else {
							judge(o, r)
						}
					}
					outcome = append(outcome, fmt.Sprint("eintr>0:", eintr > 0))
				case "pair":
					a := start(ctx, o)
					b := start(ctx, fop{"read", o.off + 10000, o.size})
					ra, oka := wait(a)
					rb, okb := wait(b)
					if !oka || !okb {
						viol("C02/fuse-read-hangs", "one of two concurrent reads of fully available data never returned")
						hung = true
						break steps
					}
					judge(o, ra)
					judge(fop{"read", o.off + 10000, o.size}, rb)
				case "evict-read-interrupt", "evict-read-supply":
					// the data is gone: the read blocks; then it is interrupted, or the data comes back
					evict()
					c, cancel := context.WithCancel(ctx)
					ch := start(c, o)
					synctest.Wait()
					select {
					case r := <-ch:
						// nothing to evict any more / still cached: judged as a plain read
						judge(o, r)
						cancel()
						continue
					default:
					}
					if o.name == "evict-read-interrupt" {
						cancel()
						r, ok := wait(ch)
						if !ok {
							viol("C02/fuse-blocked-read-not-interruptible", "a read blocked on missing data did not return after its request was interrupted")
							hung = true
							break steps
						}
						if r.err == nil && len(r.data) > 0 {
							judge(o, r)
						}
						outcome = append(outcome, "interrupted")
					} else {
						supply()
						r, ok := wait(ch)
						cancel()
						if !ok {
							viol("C02/fuse-read-hangs", "a read blocked on missing data did not return after the data arrived")
							hung = true
							break steps
						}
						judge(o, r)
						outcome = append(outcome, "supplied")
					}
					supply()
				}
			}
			if hung {
				// release whatever is parked on the handle's semaphore so that the
				// bubble can end (the finding has been recorded)
				for i := 0; i < 64; i++ {
					select {
					case <-hd.(*handle).sema:
					default:
					}
					synctest.Wait()
				}
			}
			if !hung {
				done := make(chan error, 1)
				go func() { done <- hd.(fs.HandleReleaser).Release(ctx, &bfuse.ReleaseRequest{}) }()
				synctest.Wait()
				select {
				case <-done:
				default:
					time.Sleep(time.Hour)
					synctest.Wait()
					select {
					case <-done:
					default:
						viol("C02/fuse-release-hangs", "Release of the handle never returned")
						for i := 0; i < 64; i++ {
							select {
							case <-hd.(*handle).sema:
							default:
							}
							synctest.Wait()
						}
					}
				}
			}
		})
		nontriv[strings.Join(names, " ")+"=>"+strings.Join(outcome, ",")] = true
	}
	if vh.ReplayFile() != "" {
		var rp struct {
			History []string `json:"history"`
		}
		if err := vh.LoadReplay(&rp); err != nil {
			t.Fatal(err)
		}
		var sq []int
		for _, nm := range rp.History {
			for k, o := range alphabet {
				if nm == fmt.Sprintf("%s(%d,%d)", o.name, o.off, o.size) {
					sq = append(sq, k)
				}
			}
		}
		run(sq)
		for _, v := range res.Violations {
			fmt.Printf("RESULT: violation %s: %s\n", v.Key, v.Message)
		}
		if len(res.Violations) == 0 {
			fmt.Println("RESULT: property held on this history")
		}
		return
	}
	rec = func() {
		if len(seq) > 0 {
			work++
			if vh.Mine(work) {
				run(seq)
			}
		}
		if len(seq) == depth {
			return
		}
		for k := range alphabet {
			seq = append(seq, k)
			rec()
			seq = seq[:len(seq)-1]
		}
	}
	rec()
	res.Sample(map[string]any{"history": []string{"interrupted(0,100)", "read(0,40000)", "pair(0,20000)", "release"}})
}
