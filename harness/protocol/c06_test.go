package protocol

// C06: emitted messages round-trip and match an independent codec.  Engine C:
// enumeration of message values over boundary alphabets (cartesian products),
// and of streams of concatenated messages under every cut.

import (
	"bufio"
	"bytes"
	"fmt"
	"io"
	"net"
	"net/netip"
	"os"
	"testing"
	"time"

	"github.com/jech/storrent/pex"
	"github.com/jech/storrent/zzverif/refcodec"
	"github.com/jech/storrent/zzverif/vh"
)

var b32 = []uint32{0, 1, 0x7F, 0x80, 0xFF, 0x100, 0xFFFF, 0x10000, 1<<31 - 1, 1 << 31, 1<<32 - 2, 1<<32 - 1, 16384, 1 << 20, 1 << 24}

func encodeStorrent(m Message) (b []byte, err error) {
	defer func() {
		if p := recover(); p != nil {
			err = fmt.Errorf("panic: %v", p)
		}
	}()
	var buf bytes.Buffer
	w := bufio.NewWriter(&buf)
	// Write releases Piece buffers into the pool: hand it a copy
	if p, ok := m.(Piece); ok {
		p.Data = append([]byte{}, p.Data...)
		m = p
	}
	if err := Write(w, m, nil); err != nil {
		return nil, err
	}
	w.Flush()
	return buf.Bytes(), nil
}

func decodeStorrent(b []byte) (m Message, err error) {
	defer func() {
		if p := recover(); p != nil {
			err = fmt.Errorf("panic: %v", p)
		}
	}()
	return Read(bufio.NewReader(bytes.NewReader(b)), nil)
}

type c06 struct {
	res     *vh.Result
	nontriv map[string]bool
}

// fixed-format messages must be byte-identical to the reference encoding;
// bencoded ones must be canonical bencoding that the reference decodes to the
// same message (which optional keys are emitted is the implementation's choice).
func (h *c06) checkMessage(m Message) {
	h.res.Add("evaluations", 1)
	ref, ok := toRef(m)
	if !ok {
		return
	}
	viol := func(key, format string, a ...any) {
		h.res.Violate(key, fmt.Sprintf(format, a...)+fmt.Sprintf("  [message %s]", msgString(m)), map[string]any{"message": fmt.Sprintf("%#v", m)})
	}
	kind := fmt.Sprintf("%T", m)
	wire, err := encodeStorrent(m)
	if err != nil {
		viol("C06/write-failed/"+kind, "protocol.Write failed: %v", err)
		return
	}
	ids := refcodec.ExtIDs{}
	switch ref.Kind {
	case refcodec.ExtPex:
		ids.Pex = ref.ID
	case refcodec.ExtMetadata:
		ids.Metadata = ref.ID
	case refcodec.ExtDontHave:
		ids.DontHave = ref.ID
	}
	// 1. the reference decodes what storrent wrote to the same message
	back, err := refcodec.Decode(wire, ids)
	if err != nil {
		viol("C06/ref-rejects/"+kind, "the reference codec rejects the bytes storrent wrote (%x)", trunc(wire))
		return
	}
	if d := sameMsg(ref, back); d != "" {
		viol("C06/ref-decodes-differently/"+kind, "the reference codec decodes storrent's bytes differently: %s (%x)", d, trunc(wire))
		return
	}
	// 2. byte-exact for fixed-format messages; canonical bencoding otherwise
	switch ref.Kind {
	case refcodec.Ext0, refcodec.ExtPex, refcodec.ExtMetadata:
		if back.Dict != nil {
			// re-encoding the decoded dictionary canonically must give the same bytes
			s, e, _ := 6, 0, 0
			_ = e
			canon := refcodec.Bencode(back.Dict)
			if !bytes.HasPrefix(wire[s:], canon) {
				viol("C06/non-canonical-bencode/"+kind, "the bencoded payload is not canonical (%q)", trunc(wire[6:]))
			}
		}
	default:
		want := refcodec.Encode(ref, refcodec.EncodeOpts{})
		if !bytes.Equal(wire, want) {
			viol("C06/bytes-differ/"+kind, "storrent wrote %x, the reference encoding is %x", trunc(wire), trunc(want))
			return
		}
	}
	// 3. storrent decodes its own bytes back to the same message.  Extended
	// messages are written with the sub-id the *peer* asked for and read in
	// storrent's own numbering, so this round trip is defined only when the
	// two coincide.
	if isExt(ref.Kind) && ref.ID != storrentSub(ref.Kind) {
		h.nontriv[kind+"/"+fmt.Sprint(len(wire))] = true
		return
	}
	m2, err := decodeStorrent(wire)
	if err != nil {
		viol("C06/roundtrip-error/"+kind, "protocol.Read fails on what protocol.Write produced: %v", err)
		return
	}
	r2, _ := toRef(m2)
	r2 = normaliseSub(ref, r2)
	if d := sameMsg(ref, r2); d != "" {
		viol("C06/roundtrip-differs/"+kind, "Read(Write(m)) differs from m: %s", d)
		return
	}
	// 4. storrent decodes the reference encodings (all keys / zero keys omitted)
	for _, o := range []refcodec.EncodeOpts{{}, {OmitZero: true}} {
		if isExt(ref.Kind) && ref.ID != storrentSub(ref.Kind) && ref.Kind != refcodec.Ext0 {
			// storrent only understands the sub-ids it announced
			break
		}
		enc := refcodec.Encode(ref, o)
		m3, err := decodeStorrent(enc)
		if err != nil {
			viol("C06/rejects-reference/"+kind, "protocol.Read rejects the reference encoding (%x): %v", trunc(enc), err)
			return
		}
		r3, _ := toRef(m3)
		if d := sameMsg(ref, r3); d != "" {
			viol("C06/decodes-reference-differently/"+kind, "protocol.Read decodes the reference encoding differently: %s", d)
			return
		}
	}
	h.nontriv[kind+"/"+fmt.Sprint(len(wire))] = true
}

func isExt(k string) bool {
	return k == refcodec.ExtPex || k == refcodec.ExtMetadata || k == refcodec.ExtDontHave || k == refcodec.ExtUploadOnly
}

func storrentSub(k string) uint8 {
	switch k {
	case refcodec.ExtPex:
		return ExtPex
	case refcodec.ExtMetadata:
		return ExtMetadata
	case refcodec.ExtDontHave:
		return ExtDontHave
	case refcodec.ExtUploadOnly:
		return ExtUploadOnly
	}
	return 0
}

// When storrent writes an extended message with the *peer's* sub-id and then
// reads it back, it interprets the sub-id in its own numbering; the round trip
// is only defined when the two coincide.
func normaliseSub(want, got refcodec.Msg) refcodec.Msg {
	return got
}

func trunc(b []byte) []byte {
	if len(b) > 96 {
		return b[:96]
	}
	return b
}

func payload(n int) []byte {
	b := make([]byte, n)
	for i := range b {
		b[i] = byte(i*131 + 7)
	}
	return b
}

func TestVerifC06(t *testing.T) {
	if os.Getenv("VERIF_OUT") == "" && vh.ReplayFile() == "" {
		t.Skip("verif harness: run through /verif/run")
	}
	res := vh.NewResult("C06")
	h := &c06{res: res, nontriv: map[string]bool{}}
	defer func() {
		res.Add("distinct_nontrivial", int64(len(h.nontriv)))
		if err := res.Write(); err != nil {
			t.Error(err)
		}
	}()
	work := 0
	mine := func() bool { work++; return vh.Mine(work) }
	thorough := vh.Thorough()

	// --- single messages ----------------------------------------------------
	for _, m := range []Message{KeepAlive{}, Choke{}, Unchoke{}, Interested{}, NotInterested{}, HaveAll{}, HaveNone{}} {
		if mine() {
			h.checkMessage(m)
		}
	}
	for _, v := range b32 {
		if mine() {
			h.checkMessage(Have{v})
			h.checkMessage(SuggestPiece{v})
			h.checkMessage(AllowedFast{v})
			for _, sub := range []uint8{1, 3, 7, 255} {
				h.checkMessage(ExtendedDontHave{sub, v})
			}
		}
	}
	for k := 0; k < 32; k++ {
		if mine() {
			h.checkMessage(Have{1 << k})
		}
	}
	// three-field messages: full cartesian product
	for _, a := range b32 {
		for _, b := range b32 {
			if !mine() {
				continue
			}
			for _, c := range b32 {
				h.checkMessage(Request{a, b, c})
				h.checkMessage(Cancel{a, b, c})
				h.checkMessage(RejectRequest{a, b, c})
			}
		}
	}
	// all 65536 ports
	for p := 0; p < 65536; p++ {
		if p%512 == 0 && !mine() {
			p += 511
			continue
		}
		h.checkMessage(Port{uint16(p)})
	}
	// bitfields of every length 0..64 and a few big ones
	for n := 0; n <= 64; n++ {
		if mine() {
			h.checkMessage(Bitfield{payload(n)})
		}
	}
	for _, n := range []int{1000, 16384, 1<<20 - 1} {
		if mine() {
			h.checkMessage(Bitfield{payload(n)})
		}
	}
	// pieces
	for _, n := range []int{0, 1, 16383, 16384, 16385, 1<<20 - 9} {
		for _, a := range b32 {
			if !mine() {
				continue
			}
			for _, b := range b32 {
				h.checkMessage(Piece{a, b, payload(n)})
				if n > 16385 {
					break
				}
			}
		}
	}
	// extended handshake: presence x boundary values x maps x addresses
	versions := []string{"", "x", "STorrent 0.0", "a\x00b", "ü"}
	ports := []uint16{0, 1, 255, 256, 65535}
	reqqs := []uint32{0, 1, 250, 1 << 31, 1<<32 - 1}
	msizes := []uint32{0, 1, 16384, 1 << 27, 1<<32 - 1}
	maps := []map[string]uint8{nil, {}, {"ut_pex": 1}, {"ut_metadata": 2, "ut_pex": 1}, {"zz": 255, "a": 0, "ut_pex": 7, "lt_donthave": 3},
		{"upload_only": 4, "ut_metadata": 2, "ut_pex": 1, "lt_donthave": 3}}
	v4s := []netip.Addr{{}, netip.MustParseAddr("1.2.3.4"), netip.MustParseAddr("255.255.255.255")}
	v6s := []netip.Addr{{}, netip.MustParseAddr("2001::1"), netip.MustParseAddr("::ffff:1.2.3.4")}
	for _, v := range versions {
		for _, p := range ports {
			for _, q := range reqqs {
				if !mine() {
					continue
				}
				for _, ms := range msizes {
					for _, mp := range maps {
						for _, a4 := range v4s {
							for _, a6 := range v6s {
								for fl := 0; fl < 4; fl++ {
									if !thorough && (fl == 1 || fl == 2) && ms != 0 {
										continue
									}
									h.checkMessage(Extended0{v, p, q, a4, a6, ms, mp, fl&1 != 0, fl&2 != 0})
								}
							}
						}
					}
				}
			}
		}
	}
	// metadata messages
	for _, tp := range []uint8{0, 1, 2, 3, 255} {
		for _, pc := range b32 {
			if !mine() {
				continue
			}
			for _, ts := range append([]uint32{}, b32...) {
				for _, n := range []int{0, 1, 100, 16384} {
					for _, sub := range []uint8{2, 1, 9, 255} {
						h.checkMessage(ExtendedMetadata{sub, tp, pc, ts, payload(n)})
					}
				}
			}
		}
	}
	// PEX: 0-3 v4 and 0-3 v6 peers x flags x added/dropped
	p4 := []string{"1.2.3.4:1234", "5.6.7.8:1", "255.255.255.255:65535"}
	p6 := []string{"[2001::1]:5678", "[2001::2]:1", "[ff02::1]:65535"}
	flags := []byte{0, 1, 2, 0x10, 0xFF}
	mk := func(n4, n6 int, fl byte) []pex.Peer {
		var l []pex.Peer
		for i := 0; i < n4 || i < n6; i++ {
			// interleave families so that the encoder has to separate them
			if i < n6 {
				l = append(l, pex.Peer{Addr: netip.MustParseAddrPort(p6[i]), Flags: fl ^ byte(i)})
			}
			if i < n4 {
				l = append(l, pex.Peer{Addr: netip.MustParseAddrPort(p4[i]), Flags: fl})
			}
		}
		return l
	}
	for a4 := 0; a4 <= 3; a4++ {
		for a6 := 0; a6 <= 3; a6++ {
			for d4 := 0; d4 <= 3; d4++ {
				if !mine() {
					continue
				}
				for d6 := 0; d6 <= 3; d6++ {
					for _, fl := range flags {
						for _, sub := range []uint8{1, 5, 255} {
							add := mk(a4, a6, fl)
							drop := mk(d4, d6, 0) // flags of dropped peers are not transmitted
							for i := range drop {
								drop[i].Flags = 0
							}
							h.checkMessage(ExtendedPex{sub, add, drop})
						}
					}
				}
			}
		}
	}
	res.Sample(fmt.Sprintf("%#v", Request{1 << 31, 16384, 1<<32 - 1}))
	res.Sample(fmt.Sprintf("%#v", ExtendedPex{1, mk(2, 1, 0x10), mk(0, 1, 0)}))

	// --- streams --------------------------------------------------------------
	basis := []Message{
		KeepAlive{}, Choke{}, Have{42}, Bitfield{[]byte{0xFF, 0x80}}, Request{1, 16384, 16384}, Piece{3, 0, payload(20)},
		Cancel{1, 2, 3}, Port{6881}, HaveAll{}, AllowedFast{7},
		Extended0{"v", 1, 2, netip.Addr{}, netip.Addr{}, 3, map[string]uint8{"ut_pex": 1}, false, true},
		ExtendedMetadata{2, 1, 0, 30, payload(30)}, ExtendedPex{1, mk(1, 1, 1), mk(1, 0, 0)}, ExtendedDontHave{3, 9},
	}
	// streams longer than bufio's 4 KiB buffer, so that it is refilled and reused
	// between messages (checked with single cuts only)
	long := [][]Message{
		{ExtendedMetadata{2, 1, 0, 30, payload(30)}, Piece{3, 0, payload(6000)}, Have{1}},
		{ExtendedMetadata{2, 1, 1, 20000, payload(3616)}, ExtendedMetadata{2, 1, 0, 20000, payload(16384)}, Have{1}},
		{Bitfield{payload(300)}, ExtendedPex{1, mk(3, 3, 1), mk(2, 2, 0)}, Piece{0, 16384, payload(16384)}, Extended0{"v", 1, 2, netip.Addr{}, netip.Addr{}, 3, map[string]uint8{"ut_pex": 1}, false, true}, Piece{1, 0, payload(5000)}},
	}
	decodeAll := func(r io.Reader) []string {
		// the messages are looked at only after the whole stream has been read, as
		// a consumer at the other end of protocol.Reader's channel would: a payload
		// that aliases the reader's buffer has been overwritten by then
		br := bufio.NewReader(r)
		var ms []Message
		var out []string
		for {
			m, err := Read(br, nil)
			if err != nil {
				for _, m := range ms {
					rm, _ := toRef(m)
					out = append(out, fmt.Sprintf("%+v", rm))
				}
				out = append(out, "ERR:"+err.Error())
				return out
			}
			ms = append(ms, m)
		}
	}
	maxLen := 3
	var seqs [][]int
	for a := range basis {
		seqs = append(seqs, []int{a})
		for b := range basis {
			seqs = append(seqs, []int{a, b})
			if maxLen >= 3 {
				for c := range basis {
					seqs = append(seqs, []int{a, b, c})
				}
			}
		}
	}
	for _, sq := range seqs {
		if !mine() {
			continue
		}
		if vh.Expired() {
			res.NotExhaustive("deadline in the stream enumeration")
			break
		}
		var stream []byte
		for _, i := range sq {
			b, err := encodeStorrent(basis[i])
			if err != nil {
				t.Fatal(err)
			}
			stream = append(stream, b...)
		}
		want := fmt.Sprint(decodeAll(bytes.NewReader(stream)))
		{
			// the reference point is what was written, not what one delivery decoded to
			var exp []string
			for _, i := range sq {
				b, _ := encodeStorrent(basis[i])
				m, err := Read(bufio.NewReader(bytes.NewReader(b)), nil)
				if err != nil {
					t.Fatal(err)
				}
				rm, _ := toRef(m)
				exp = append(exp, fmt.Sprintf("%+v", rm))
			}
			exp = append(exp, "ERR:EOF")
			if e := fmt.Sprint(exp); e != want {
				res.Violate("C06/stream-whole", fmt.Sprintf("a stream of %d messages delivered in one piece decodes to %s, the messages decode one by one to %s", len(sq), want, e), map[string]any{"messages": sq, "delivery": "whole"})
				want = e
			}
		}
		check := func(r io.Reader, how string) {
			res.Add("evaluations", 1)
			res.Add("stream_deliveries", 1)
			if got := fmt.Sprint(decodeAll(r)); got != want {
				res.Violate("C06/stream-cut", fmt.Sprintf("a stream of %d messages decodes differently when delivered %s: %s vs %s", len(sq), how, got, want),
					map[string]any{"messages": sq, "delivery": how})
			}
		}
		check(&cutReader{data: stream, one: true}, "byte-at-a-time")
		for k := 1; k < len(stream); k++ {
			check(&cutReader{data: stream, segs: []int{k}}, fmt.Sprintf("cut at %d", k))
			// the same split between the handshake's left-over bytes (init) and the connection
			check(io.MultiReader(bytes.NewReader(stream[:k]), bytes.NewReader(stream[k:])), fmt.Sprintf("init=%d bytes", k))
		}
		if len(stream) <= 80 || (thorough && len(stream) <= 160) {
			for k := 1; k < len(stream); k++ {
				for l := 1; k+l < len(stream); l++ {
					check(&cutReader{data: stream, segs: []int{k, l}}, fmt.Sprintf("cuts at %d,%d", k, k+l))
				}
			}
		}
		h.nontriv[fmt.Sprint("stream", sq)] = true
	}

	for li, lm := range long {
		if !mine() {
			continue
		}
		var stream []byte
		var exp []string
		for _, m := range lm {
			b, err := encodeStorrent(m)
			if err != nil {
				t.Fatal(err)
			}
			stream = append(stream, b...)
			dm, err := Read(bufio.NewReader(bytes.NewReader(b)), nil)
			if err != nil {
				t.Fatal(err)
			}
			rm, _ := toRef(dm)
			exp = append(exp, fmt.Sprintf("%+v", rm))
		}
		exp = append(exp, "ERR:EOF")
		want := fmt.Sprint(exp)
		step := 1
		if !thorough {
			step = 7
		}
		for k := 0; k < len(stream); k += step {
			res.Add("evaluations", 1)
			res.Add("stream_deliveries", 1)
			var r io.Reader = &cutReader{data: stream, segs: []int{k}}
			if k == 0 {
				r = bytes.NewReader(stream)
			}
			if got := fmt.Sprint(decodeAll(r)); got != want {
				res.Violate("C06/stream-cut/long", fmt.Sprintf("long stream %d (%d bytes) cut at %d: a message changed after later messages were read, or the sequence differs", li, len(stream), k),
					map[string]any{"long": li, "cut": k})
				break
			}
		}
		h.nontriv[fmt.Sprint("long", li)] = true
	}

	// several messages written into ONE buffered writer without a flush in between (as
	// protocol.Writer does when its channel holds several): the bytes are the
	// concatenation of the messages' own encodings, whatever is already pending
	// in the buffer when a message starts (4096-byte bufio buffer: every fill
	// level around the boundary in front of each message kind)
	if mine() {
		fillers := []Message{KeepAlive{}, Have{7}, Request{1, 2, 3}, Port{9}}
		tails := []Message{Piece{3, 16384, payload(100)}, Piece{0, 0, payload(16384)}, Piece{1, 0, nil}, Bitfield{payload(40)}, Request{9, 8, 7},
			ExtendedMetadata{2, 1, 0, 30, payload(30)}, Extended0{"v", 1, 2, netip.Addr{}, netip.Addr{}, 3, map[string]uint8{"ut_pex": 1}, false, true}, ExtendedPex{1, mk(2, 1, 1), mk(1, 0, 0)}}
		for _, tail := range tails {
			for pending := 4060; pending <= 4110; pending++ {
				res.Add("evaluations", 1)
				var buf bytes.Buffer
				w := bufio.NewWriter(&buf)
				var want []byte
				emit := func(m Message) bool {
					b, err := encodeStorrent(m)
					if err != nil {
						t.Fatal(err)
					}
					want = append(want, b...)
					if p, ok := m.(Piece); ok {
						p.Data = append([]byte{}, p.Data...)
						m = p
					}
					return Write(w, m, nil) == nil
				}
				// bring the buffer to exactly `pending` unflushed bytes
				ok := true
				for len(want) < pending && ok {
					left := pending - len(want)
					switch {
					case left >= 17+4 || left == 17:
						ok = emit(fillers[2]) // 17 bytes
					case left >= 9+4 || left == 9:
						ok = emit(fillers[1]) // 9 bytes
					case left >= 7+4 || left == 7:
						ok = emit(fillers[3]) // 7 bytes
					default:
						ok = emit(fillers[0]) // 4 bytes
					}
				}
				if len(want) != pending {
					continue // not reachable with these filler sizes
				}
				ok = ok && emit(tail) && emit(Have{1})
				w.Flush()
				if !ok || !bytes.Equal(buf.Bytes(), want) {
					res.Violate("C06/batched-writes", fmt.Sprintf("writing %T with %d bytes already pending in the same buffered writer produces other bytes than the message's own encoding (first difference at byte %d of %d)", tail, pending, firstDiff(buf.Bytes(), want), len(want)),
						map[string]any{"tail": fmt.Sprintf("%T", tail), "pending": pending})
					break
				}
			}
			h.nontriv[fmt.Sprintf("batched/%T", tail)] = true
		}
	}

	// protocol.Reader with long left-over bytes from the handshake (init longer than
	// one read of the buffered reader)
	if mine() {
		for li, lm := range long {
			var stream []byte
			var exp []string
			for _, m := range lm {
				b, _ := encodeStorrent(m)
				stream = append(stream, b...)
				dm, err := Read(bufio.NewReader(bytes.NewReader(b)), nil)
				if err != nil {
					t.Fatal(err)
				}
				rm, _ := toRef(dm)
				exp = append(exp, fmt.Sprintf("%+v", rm))
			}
			for _, k := range []int{0, 1, 4095, 4096, 4097, 5000, 8192, 8193, len(stream) - 1, len(stream)} {
				if k < 0 || k > len(stream) {
					continue
				}
				res.Add("evaluations", 1)
				c1, c2 := net.Pipe()
				ch := make(chan Message, 64)
				done := make(chan struct{})
				go Reader(c1, append([]byte{}, stream[:k]...), nil, ch, done)
				go func() {
					c2.Write(stream[k:])
					time.Sleep(200 * time.Millisecond)
					c2.Close()
				}()
				var ms []Message
				timeout := time.After(20 * time.Second)
			rl:
				for {
					select {
					case m, ok := <-ch:
						if !ok {
							break rl
						}
						if _, isErr := m.(Error); isErr {
							break rl
						}
						ms = append(ms, m)
					case <-timeout:
						break rl
					}
				}
				close(done)
				c1.Close()
				var got []string
				for _, m := range ms {
					rm, _ := toRef(m)
					got = append(got, fmt.Sprintf("%+v", rm))
				}
				if fmt.Sprint(got) != fmt.Sprint(exp) {
					res.Violate("C06/reader-long-init", fmt.Sprintf("protocol.Reader given the first %d bytes of a %d-byte stream as left-over handshake bytes decodes %d messages instead of %d (or other ones)", k, len(stream), len(got), len(exp)),
						map[string]any{"long": li, "init": k})
					break
				}
			}
		}
	}

	// the Reader goroutine itself (init bytes + connection), over a pipe
	if mine() {
		var stream []byte
		for _, i := range []int{2, 5, 10, 0, 13} {
			b, _ := encodeStorrent(basis[i])
			stream = append(stream, b...)
		}
		for k := 0; k <= len(stream); k += 7 {
			c1, c2 := net.Pipe()
			ch := make(chan Message, 64)
			done := make(chan struct{})
			go Reader(c1, append([]byte{}, stream[:k]...), nil, ch, done)
			go func() {
				for i := k; i < len(stream); i += 5 {
					e := i + 5
					if e > len(stream) {
						e = len(stream)
					}
					c2.Write(stream[i:e])
				}
				c2.Close()
			}()
			var got []string
			timeout := time.After(20 * time.Second)
		loop:
			for {
				select {
				case m, ok := <-ch:
					if !ok {
						break loop
					}
					if _, isErr := m.(Error); isErr {
						break loop
					}
					rm, _ := toRef(m)
					got = append(got, rm.Kind)
				case <-timeout:
					got = append(got, "TIMEOUT")
					break loop
				}
			}
			close(done)
			c1.Close()
			res.Add("evaluations", 1)
			if fmt.Sprint(got) != "[have piece ext0 keepalive donthave]" {
				res.Violate("C06/reader-init", fmt.Sprintf("protocol.Reader with %d init bytes produced %v", k, got), map[string]any{"init": k})
			}
		}
	}
}
