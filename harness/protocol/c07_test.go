package protocol

// C07: handshakes agree and do not depend on TCP segmentation.  Every
// configuration is first run with the default network (everything coalesced);
// then under every single cut point in either direction, reordered service of
// the two directions, byte-at-a-time delivery, and (thorough) pairs of cuts.
// The outcome tuple of both sides must be identical to the coalesced run.

import (
	"strings"
	"bytes"
	"fmt"
	"os"
	"testing"

	"github.com/jech/storrent/crypto"
	"github.com/jech/storrent/zzverif/vh"
)

type hsReplay struct {
	Cfg     hsConfig `json:"cfg"`
	Choices []choice `json:"choices"`
	Mode    string   `json:"mode"`
}

func bytewise(dirs int) policy {
	// dirs: 1 = c->s one byte at a time, 2 = s->c, 3 = both
	return func(step int, p point) choice {
		if p.PendC > 0 {
			if dirs&1 != 0 {
				return choice{0, 1}
			}
			return choice{0, 0}
		}
		if dirs&2 != 0 {
			return choice{1, 1}
		}
		return choice{1, 0}
	}
}

// serverFirst serves the server->client direction first whenever both have bytes pending.
func serverFirst(step int, p point) choice {
	if p.PendS > 0 {
		return choice{1, 0}
	}
	return choice{0, 0}
}

func agreement(cfg hsConfig, r hsRun) string {
	if !r.C.OK || !r.S.OK {
		return ""
	}
	if cfg.WrongHash {
		return "a handshake for a torrent the server does not have succeeded"
	}
	if r.C.Hash != hsInfoHash.String() || r.S.Hash != hsInfoHash.String() {
		return fmt.Sprintf("info-hash disagreement: client %s server %s", r.C.Hash, r.S.Hash)
	}
	if r.C.ID != string(hsSID) {
		return fmt.Sprintf("the client learnt peer id %q, the server's id is %q", r.C.ID, hsSID)
	}
	if r.S.ID != string(hsCID) {
		return fmt.Sprintf("the server learnt peer id %q, the client's id is %q", r.S.ID, hsCID)
	}
	if r.C.Encrypted != r.S.Encrypted {
		return fmt.Sprintf("cipher mode disagreement: client encrypted=%v server encrypted=%v", r.C.Encrypted, r.S.Encrypted)
	}
	if !r.C.Dht || !r.C.Fast || !r.C.Ext || !r.S.Dht || !r.S.Fast || !r.S.Ext {
		return "capability bits lost"
	}
	wantC := r.S.SentEarly
	if !bytes.Equal(r.C.Received, wantC) {
		return fmt.Sprintf("the client's message layer received %d bytes, the server's wrote %d (first difference at %d)", len(r.C.Received), len(wantC), firstDiff(r.C.Received, wantC))
	}
	wantS := r.C.SentEarly
	if cfg.ClientRef && cfg.RefPipeline > 0 {
		wantS = append(earlyBytes(cfg.RefPipeline, 0x2B), wantS...)
	}
	if cfg.ClientRef && cfg.RefIAExtra > 0 {
		wantS = append(earlyBytes(cfg.RefIAExtra, 0x1A), wantS...)
	}
	if !bytes.Equal(r.S.Received, wantS) {
		return fmt.Sprintf("the server's message layer received %d bytes, the client's wrote %d (first difference at %d)", len(r.S.Received), len(wantS), firstDiff(r.S.Received, wantS))
	}
	return ""
}

func firstDiff(a, b []byte) int {
	for i := 0; i < len(a) && i < len(b); i++ {
		if a[i] != b[i] {
			return i
		}
	}
	if len(a) < len(b) {
		return len(a)
	}
	return len(b)
}

type c07 struct {
	t       *testing.T
	res     *vh.Result
	nontriv map[string]bool
}

func (h *c07) compare(cfg hsConfig, base hsRun, r hsRun, mode string, choices []choice) {
	h.res.Add("evaluations", 1)
	h.res.Add("transitions", int64(len(r.Points)))
	kind := "plain"
	if cfg.MSE {
		kind = "mse"
	}
	who := fmt.Sprintf("%s/%v%v", kind, cfg.ClientRef, cfg.ServerRef)
	if a := agreement(cfg, r); a != "" {
		h.res.Violate("C07/disagree/"+who, fmt.Sprintf("%s  [config %s, delivery %s %v]", a, cfg, mode, choices), hsReplay{cfg, choices, mode})
		return
	}
	if r.key() != base.key() {
		what := "outcome"
		if base.C.OK && base.S.OK && (!r.C.OK || !r.S.OK) {
			what = fmt.Sprintf("a handshake that succeeds when everything is coalesced fails (client err=%q, server err=%q)", r.C.Err, r.S.Err)
		} else if (!base.C.OK || !base.S.OK) && r.C.OK && r.S.OK {
			what = fmt.Sprintf("a handshake that fails when everything is coalesced (client err=%q, server err=%q) succeeds", base.C.Err, base.S.Err)
		} else {
			what = fmt.Sprintf("the outcome differs: %.300s  vs coalesced  %.300s", r.key(), base.key())
		}
		// the stable key names the roles and the error that appears/disappears
		cls := ""
		for _, e := range []string{base.S.Err, r.S.Err, base.C.Err, r.C.Err} {
			if e != "" && e != "EOF" && cls == "" {
				cls = e
			}
		}
		if len(cls) > 40 {
			cls = cls[:40]
		}
		cls = strings.ReplaceAll(cls, " ", "-")
		h.res.Violate("C07/segmentation/"+who+"/"+cls, fmt.Sprintf("%s  [config %s, delivery %s %v]", what, cfg, mode, choices), hsReplay{cfg, choices, mode})
	}
}

// explore runs cfg under the whole delivery alphabet.
func (h *c07) explore(cfg hsConfig, cuts bool, pairs bool) {
	base := runHandshake(h.t, cfg, defaultPolicy)
	h.res.Add("configurations", 1)
	h.compare(cfg, base, base, "coalesced", nil)
	h.nontriv[fmt.Sprintf("%v/%v/%v/%v", cfg.MSE, base.C.OK, base.S.OK, base.C.Encrypted)] = true
	h.res.Distinct("outcomes", base.key())
	for d := 1; d <= 3; d++ {
		h.compare(cfg, base, runHandshake(h.t, cfg, bytewise(d)), fmt.Sprintf("byte-at-a-time(%d)", d), nil)
	}
	h.compare(cfg, base, runHandshake(h.t, cfg, serverFirst), "server-direction-first", nil)
	if !cuts {
		return
	}
	// every single cut: at point i deliver k < pending, then defaults
	for i, p := range base.Points {
		pend, dir := p.PendC, 0
		if pend == 0 {
			pend, dir = p.PendS, 1
		}
		for k := 1; k < pend; k++ {
			if vh.Expired() {
				h.res.NotExhaustive("deadline inside the single-cut enumeration")
				return
			}
			l := make([]choice, i+1)
			l[i] = choice{dir, k}
			r := runHandshake(h.t, cfg, listPolicy(l))
			h.compare(cfg, base, r, "single-cut", l)
			h.nontriv[fmt.Sprintf("cut/%v/%d/%d/%d", cfg.MSE, i, dir, k)] = true
			if pairs && (k == 1 || k == pend-1 || k%16 == 0) {
				// second cut at every later point, boundary positions only
				for j := i + 1; j < len(r.Points); j++ {
					q := r.Points[j]
					pend2, dir2 := q.PendC, 0
					if pend2 == 0 {
						pend2, dir2 = q.PendS, 1
					}
					for _, k2 := range []int{1, 2, pend2 / 2, pend2 - 1} {
						if k2 < 1 || k2 >= pend2 {
							continue
						}
						l2 := make([]choice, j+1)
						copy(l2, l)
						l2[j] = choice{dir2, k2}
						h.compare(cfg, base, runHandshake(h.t, cfg, listPolicy(l2)), "two-cuts", l2)
					}
				}
			}
		}
		// the other direction served first at this point, if it has bytes
		if p.PendC > 0 && p.PendS > 0 {
			l := make([]choice, i+1)
			l[i] = choice{1, 0}
			h.compare(cfg, base, runHandshake(h.t, cfg, listPolicy(l)), "other-direction-first", l)
		}
	}
}

func c07Configs(thorough bool) (full []hsConfig, light []hsConfig) {
	def := *crypto.DefaultOptions(false, false)
	pref := *crypto.DefaultOptions(true, false)
	force := *crypto.DefaultOptions(true, true)
	none := crypto.Options{}
	// configurations that get every single cut
	full = []hsConfig{
		{MSE: false, COpts: none, SOpts: none, EarlyC: 5, EarlyS: 5},
		{MSE: false, COpts: def, SOpts: def, EarlyC: 0, EarlyS: 68},
		{MSE: true, COpts: def, SOpts: def, PadC: 0, PadS: 0, EarlyC: 5, EarlyS: 5},
		{MSE: true, COpts: pref, SOpts: pref, PadC: 1, PadS: 255, EarlyC: 68, EarlyS: 0},
		{MSE: true, COpts: force, SOpts: force, PadC: 511, PadS: 1, EarlyC: 1, EarlyS: 600},
		{MSE: true, COpts: def, SOpts: pref, PadC: 255, PadS: 511, EarlyC: 0, EarlyS: 0},
		// storrent against the independent implementation, both roles
		{MSE: true, COpts: pref, ServerRef: true, PadC: 1, PadS: 3, RefPadD: 5, EarlyC: 5, EarlyS: 5},
		{MSE: true, SOpts: pref, ClientRef: true, RefProvide: 3, PadC: 2, PadS: 1, RefPadC: 7, EarlyC: 5, EarlyS: 5},
		{MSE: true, SOpts: def, ClientRef: true, RefProvide: 1, PadC: 0, PadS: 0, RefPadC: 0, RefIAExtra: 9, EarlyC: 3, EarlyS: 3},
		{MSE: false, SOpts: def, ClientRef: true, EarlyC: 5, EarlyS: 5},
		{MSE: true, SOpts: def, ClientRef: true, RefProvide: 1, RefPipeline: 4, EarlyC: 5, EarlyS: 5},
		{MSE: true, SOpts: pref, ClientRef: true, RefProvide: 2, RefPipeline: 4, PadC: 1, RefPadC: 1, EarlyC: 5, EarlyS: 5},
		{MSE: false, COpts: def, ServerRef: true, EarlyC: 5, EarlyS: 5},
	}
	// the rest: coalesced, byte-at-a-time (3 ways), reordered
	pads := []int{0, 1, 255, 511}
	earlies := []int{0, 1, 5, 68, 600}
	optsets := []crypto.Options{def, pref, force}
	for _, co := range optsets {
		for _, so := range optsets {
			for _, mse := range []bool{false, true} {
				for _, pc := range pads {
					for _, ps := range pads {
						if !mse && (pc != 0 || ps != 0) {
							continue
						}
						for _, ec := range earlies {
							for _, es := range earlies {
								if !thorough && ec != es && ec != 0 && es != 0 {
									continue
								}
								light = append(light, hsConfig{MSE: mse, COpts: co, SOpts: so, PadC: pc, PadS: ps, EarlyC: ec, EarlyS: es})
							}
						}
					}
				}
			}
		}
	}
	// reference peers with every pad / PadC / PadD / IA-extra combination from the boundary set
	for _, a := range []int{0, 1, 511} {
		for _, b := range []int{0, 1, 512} {
			for _, prov := range []uint32{1, 2, 3} {
				light = append(light, hsConfig{MSE: true, SOpts: def, ClientRef: true, RefProvide: prov, PadC: a, RefPadC: b, EarlyC: 5, EarlyS: 5})
				light = append(light, hsConfig{MSE: true, SOpts: pref, ClientRef: true, RefProvide: prov, PadC: a, RefPadC: b, RefIAExtra: 20, EarlyC: 5, EarlyS: 5})
			}
			for _, sel := range []uint32{0, 1, 2} {
				light = append(light, hsConfig{MSE: true, COpts: def, ServerRef: true, RefSelect: sel, PadS: a, RefPadD: b, EarlyC: 5, EarlyS: 5})
			}
		}
	}
	light = append(light, hsConfig{MSE: true, COpts: def, SOpts: def, WrongHash: true}, hsConfig{MSE: false, COpts: def, SOpts: def, WrongHash: true})
	return
}

func TestVerifC07(t *testing.T) {
	if os.Getenv("VERIF_OUT") == "" && vh.ReplayFile() == "" {
		t.Skip("verif harness: run through /verif/run")
	}
	res := vh.NewResult("C07")
	h := &c07{t: t, res: res, nontriv: map[string]bool{}}
	defer func() {
		res.Add("distinct_nontrivial", int64(len(h.nontriv)))
		if err := res.Write(); err != nil {
			t.Error(err)
		}
	}()
	if vh.ReplayFile() != "" {
		var rp hsReplay
		if err := vh.LoadReplay(&rp); err != nil {
			t.Fatal(err)
		}
		pol := listPolicy(rp.Choices)
		switch rp.Mode {
		case "byte-at-a-time(1)":
			pol = bytewise(1)
		case "byte-at-a-time(2)":
			pol = bytewise(2)
		case "byte-at-a-time(3)":
			pol = bytewise(3)
		case "server-direction-first":
			pol = serverFirst
		}
		base := runHandshake(t, rp.Cfg, defaultPolicy)
		r := runHandshake(t, rp.Cfg, pol)
		fmt.Printf("config: %s\ncoalesced: client ok=%v err=%q server ok=%v err=%q points=%v\n", rp.Cfg, base.C.OK, base.C.Err, base.S.OK, base.S.Err, base.Points)
		fmt.Printf("replayed (%s %v): client ok=%v err=%q server ok=%v err=%q points=%v\n", rp.Mode, rp.Choices, r.C.OK, r.C.Err, r.S.OK, r.S.Err, r.Points)
		h.compare(rp.Cfg, base, r, rp.Mode, rp.Choices)
		for _, v := range res.Violations {
			fmt.Printf("RESULT: violation %s: %s\n", v.Key, v.Message)
		}
		if len(res.Violations) == 0 {
			fmt.Println("RESULT: property held on this execution")
		}
		return
	}
	full, light := c07Configs(vh.Thorough())
	work := 0
	for _, cfg := range full {
		work++
		if !vh.Mine(work) {
			continue
		}
		// pairs of cuts: always for the first six configurations, for all in thorough
		h.explore(cfg, true, vh.Thorough() || work <= 6)
		res.Sample(map[string]any{"config": cfg.String(), "cuts": "every single cut point"})
	}
	for _, cfg := range light {
		work++
		if !vh.Mine(work) {
			continue
		}
		if vh.Expired() {
			res.NotExhaustive("deadline in the light configurations")
			break
		}
		h.explore(cfg, false, false)
	}
}
