package protocol

// Shared machinery of the handshake harnesses (C07 segmentation independence,
// C08 encryption policy): a closed system of two parties (storrent's real
// ClientHandshake/ServerHandshake, or the independent refmse peer) joined by a
// vpipe pair inside a testing/synctest bubble.  The harness plays the network:
// it acts only when every goroutine is durably blocked, and then decides which
// direction delivers how many of its pending bytes.

import (
	"bytes"
	"errors"
	"fmt"
	"io"
	"net"
	"testing"
	"testing/synctest"
	"time"

	"github.com/jech/storrent/crypto"
	"github.com/jech/storrent/hash"
	"github.com/jech/storrent/zzverif/refmse"
	"github.com/jech/storrent/zzverif/vcrand"
	"github.com/jech/storrent/zzverif/vpipe"
)

type hsConfig struct {
	MSE        bool // the client starts with an MSE handshake
	COpts      crypto.Options
	SOpts      crypto.Options
	PadC, PadS int // pad lengths drawn by the two storrent sides (PadA / PadB)
	EarlyC     int // bytes the client's message layer writes as soon as its handshake returns
	EarlyS     int
	ClientRef  bool // client played by refmse (+ plain BitTorrent handshake)
	ServerRef  bool
	RefProvide uint32 // crypto_provide sent by a reference client
	RefSelect  uint32 // crypto_select answered by a reference server (0 = prefer RC4)
	RefPadC    int
	RefPadD    int
	RefIAExtra int // a reference client appends this many payload bytes to IA
	RefPipeline int // a reference client offering one method pipelines this many payload bytes behind message 3
	WrongHash  bool // the client asks for a torrent the server does not have
	RefSecret  []byte `json:",omitempty"` // private DH value of the reference side (nil: a fixed default)
}

func (c hsConfig) String() string {
	return fmt.Sprintf("mse=%v copts=%s sopts=%s pad=%d/%d early=%d/%d ref=%v/%v prov=%d sel=%d refpad=%d/%d iaextra=%d pipeline=%d wrong=%v",
		c.MSE, optString(c.COpts), optString(c.SOpts), c.PadC, c.PadS, c.EarlyC, c.EarlyS, c.ClientRef, c.ServerRef, c.RefProvide, c.RefSelect, c.RefPadC, c.RefPadD, c.RefIAExtra, c.RefPipeline, c.WrongHash)
}

func optBits(o crypto.Options) int {
	b := 0
	for i, v := range []bool{o.AllowCryptoHandshake, o.PreferCryptoHandshake, o.ForceCryptoHandshake, o.AllowEncryption, o.PreferEncryption, o.ForceEncryption} {
		if v {
			b |= 1 << i
		}
	}
	return b
}

func optsFromBits(b int) crypto.Options {
	return crypto.Options{
		AllowCryptoHandshake: b&1 != 0, PreferCryptoHandshake: b&2 != 0, ForceCryptoHandshake: b&4 != 0,
		AllowEncryption: b&8 != 0, PreferEncryption: b&16 != 0, ForceEncryption: b&32 != 0,
	}
}

func optString(o crypto.Options) string {
	s := ""
	for i, n := range []string{"aH", "pH", "fH", "aE", "pE", "fE"} {
		if optBits(o)&(1<<i) != 0 {
			s += n
		}
	}
	if s == "" {
		return "-"
	}
	return s
}

// a delivery decision at one quiescent point
type choice struct {
	Dir int // 0 = client->server, 1 = server->client
	K   int // bytes to deliver; <=0 = everything pending in that direction
}

type point struct {
	PendC, PendS int // pending bytes client->server / server->client
}

type sideOutcome struct {
	OK        bool
	Err       string
	Hash, ID  string
	Dht, Fast bool
	Ext       bool
	Encrypted bool
	Received  []byte // init + everything read from the returned connection until EOF
	Wire      []byte // raw bytes this side put on the wire
	SentEarly []byte
}

func (o sideOutcome) key() string {
	if !o.OK {
		return "fail"
	}
	return fmt.Sprintf("ok hash=%s id=%s caps=%v%v%v enc=%v recv=%x", o.Hash, o.ID, o.Dht, o.Fast, o.Ext, o.Encrypted, o.Received)
}

type hsRun struct {
	C, S   sideOutcome
	// the public DH value the reference side received from storrent, and the
	// shared secret it computed
	RefPeerPub, RefS []byte
	Points           []point
	Hung   bool // somebody only returned because a deadline fired
}

func (r hsRun) key() string { return "C{" + r.C.key() + "} S{" + r.S.key() + "}" }

var (
	hsInfoHash = hash.Hash(bytes.Repeat([]byte{0xAB}, 20))
	hsOther    = hash.Hash(bytes.Repeat([]byte{0xCD}, 20))
	hsCID      = hash.Hash([]byte("-CLIENT-id-012345678"))
	hsSID      = hash.Hash([]byte("-SERVER-id-987654321"))
)

func earlyBytes(n int, seed byte) []byte {
	b := make([]byte, n)
	for i := range b {
		b[i] = byte(i*11) ^ seed
	}
	// make it look like a message stream: starts with a keep-alive
	return b
}

// policy decides each delivery; it is given the step number and the pending
// counts and returns the choice (Dir with nothing pending is corrected).
type policy func(step int, p point) choice

func defaultPolicy(int, point) choice { return choice{0, 0} }

// runHandshake executes one handshake under the given delivery policy.
func runHandshake(t *testing.T, cfg hsConfig, pol policy) (out hsRun) {
	synctest.Test(t, func(t *testing.T) {
		out = runHandshakeInBubble(cfg, pol)
	})
	return
}

func refPlainHandshake(h, id hash.Hash) []byte {
	b := []byte{19}
	b = append(b, "BitTorrent protocol"...)
	b = append(b, 0, 0, 0, 0, 0, 0x10, 0, 0x05)
	b = append(b, h...)
	b = append(b, id...)
	return b
}

func runHandshakeInBubble(cfg hsConfig, pol policy) (out hsRun) {
	vcrand.Fix(cfg.PadC, cfg.PadS)
	defer vcrand.Unfix()
	ce, se := vpipe.New()
	doneC := make(chan struct{})
	doneS := make(chan struct{})
	var writingDoneC, writingDoneS bool

	drain := func(conn io.Reader, init []byte) []byte {
		got := append([]byte{}, init...)
		buf := make([]byte, 700)
		for {
			n, err := conn.Read(buf)
			got = append(got, buf[:n]...)
			if err != nil {
				return got
			}
		}
	}

	wantHash := hsInfoHash
	if cfg.WrongHash {
		wantHash = hsOther
	}

	// client
	go func() {
		defer close(doneC)
		o := &out.C
		early := earlyBytes(cfg.EarlyC, 0x5C)
		o.SentEarly = early
		if !cfg.ClientRef {
			copts := cfg.COpts
			conn, res, init, err := ClientHandshake(ce, cfg.MSE, wantHash, hsCID, &copts)
			if err != nil {
				o.Err = err.Error()
				ce.Close()
				writingDoneC = true
				return
			}
			o.OK = true
			o.Hash, o.ID = res.Hash.String(), string(res.Id)
			o.Dht, o.Fast, o.Ext = res.Dht, res.Fast, res.Extended
			_, o.Encrypted = conn.(*crypto.Conn)
			conn.SetDeadline(time.Time{})
			conn.Write(early)
			writingDoneC = true
			o.Received = drain(conn, init)
			return
		}
		// reference client
		var rw io.ReadWriter = ce
		hs := refPlainHandshake(wantHash, hsCID)
		if cfg.MSE {
			secret := bytes.Repeat([]byte{0x42}, 20)
			if cfg.RefSecret != nil {
				secret = cfg.RefSecret
			}
			cp := &refmse.ClientParams{Secret: secret, PadA: cfg.PadC, Provide: cfg.RefProvide,
				PadC: cfg.RefPadC, IA: append(append([]byte{}, hs...), earlyBytes(cfg.RefIAExtra, 0x1A)...), SKey: wantHash,
				Pipeline: earlyBytes(cfg.RefPipeline, 0x2B)}
			st, sel, err := refmse.Client(ce, cp)
			out.RefPeerPub, out.RefS = cp.PeerPub, cp.S
			if err != nil {
				o.Err = err.Error()
				ce.Close()
				writingDoneC = true
				return
			}
			o.Encrypted = sel == 2
			rw = st
		} else {
			rw.Write(hs)
		}
		reply := make([]byte, 68)
		if _, err := io.ReadFull(rw, reply); err != nil {
			o.Err = "reading server handshake: " + err.Error()
			ce.Close()
			writingDoneC = true
			return
		}
		if !bytes.Equal(reply[:20], hs[:20]) || !bytes.Equal(reply[28:48], wantHash) {
			o.Err = "bad server handshake"
			ce.Close()
			writingDoneC = true
			return
		}
		o.OK = true
		o.Hash, o.ID = hash.Hash(reply[28:48]).String(), string(reply[48:68])
		o.Dht, o.Fast, o.Ext = reply[27]&1 != 0, reply[27]&4 != 0, reply[25]&0x10 != 0
		rw.Write(early)
		writingDoneC = true
		o.Received = drain(rw, nil)
	}()

	// server
	go func() {
		defer close(doneS)
		o := &out.S
		early := earlyBytes(cfg.EarlyS, 0xA3)
		o.SentEarly = early
		if !cfg.ServerRef {
			sopts := cfg.SOpts
			conn, res, init, err := ServerHandshake(se, []hash.HashPair{{First: hsInfoHash, Second: hsSID}}, &sopts)
			if err != nil {
				o.Err = err.Error()
				se.Close()
				writingDoneS = true
				return
			}
			o.OK = true
			o.Hash, o.ID = res.Hash.String(), string(res.Id)
			o.Dht, o.Fast, o.Ext = res.Dht, res.Fast, res.Extended
			_, o.Encrypted = conn.(*crypto.Conn)
			conn.SetDeadline(time.Time{})
			conn.Write(early)
			writingDoneS = true
			o.Received = drain(conn, init)
			return
		}
		// reference server
		var rw io.ReadWriter = se
		if cfg.MSE {
			secret := bytes.Repeat([]byte{0x24}, 20)
			if cfg.RefSecret != nil {
				secret = cfg.RefSecret
			}
			sp := &refmse.ServerParams{Secret: secret, PadB: cfg.PadS, PadD: cfg.RefPadD, SKeys: [][]byte{hsInfoHash}}
			if cfg.RefSelect != 0 {
				sel := cfg.RefSelect
				sp.Select = func(uint32) uint32 { return sel }
			}
			st, err := refmse.Server(se, sp)
			out.RefPeerPub, out.RefS = sp.PeerPub, sp.S
			if err != nil {
				o.Err = err.Error()
				se.Close()
				writingDoneS = true
				return
			}
			o.Encrypted = st.Encrypted()
			rw = io.ReadWriter(struct {
				io.Reader
				io.Writer
			}{io.MultiReader(bytes.NewReader(sp.IA), st), st})
		}
		hs := make([]byte, 68)
		if _, err := io.ReadFull(rw, hs); err != nil {
			o.Err = "reading client handshake: " + err.Error()
			se.Close()
			writingDoneS = true
			return
		}
		if hs[0] != 19 || !bytes.Equal(hs[28:48], hsInfoHash) {
			o.Err = "bad client handshake"
			se.Close()
			writingDoneS = true
			return
		}
		o.OK = true
		o.Hash, o.ID = hash.Hash(hs[28:48]).String(), string(hs[48:68])
		o.Dht, o.Fast, o.Ext = hs[27]&1 != 0, hs[27]&4 != 0, hs[25]&0x10 != 0
		rw.Write(refPlainHandshake(hsInfoHash, hsSID))
		rw.Write(early)
		writingDoneS = true
		o.Received = drain(rw, nil)
	}()

	isDone := func(ch chan struct{}) bool {
		select {
		case <-ch:
			return true
		default:
			return false
		}
	}
	eofSent := false
	for step := 0; step < 100000; step++ {
		synctest.Wait()
		dc, ds := isDone(doneC), isDone(doneS)
		if dc && ds {
			break
		}
		p := point{ce.Pending(), se.Pending()}
		// bytes addressed to a party that has already closed its end are dropped
		if ce.Closed() && p.PendS > 0 {
			se.Deliver(p.PendS)
			continue
		}
		if se.Closed() && p.PendC > 0 {
			ce.Deliver(p.PendC)
			continue
		}
		if p.PendC == 0 && p.PendS == 0 {
			cFinishedWriting := writingDoneC || dc
			sFinishedWriting := writingDoneS || ds
			if !eofSent && (cFinishedWriting || sFinishedWriting) {
				// whoever has finished writing (or has closed) ends its stream
				if cFinishedWriting && sFinishedWriting {
					ce.EndOfStream()
					se.EndOfStream()
					eofSent = true
					continue
				}
				if cFinishedWriting && ce.Closed() {
					ce.EndOfStream()
					eofSent = true
					continue
				}
				if sFinishedWriting && se.Closed() {
					se.EndOfStream()
					eofSent = true
					continue
				}
			}
			// both are waiting for bytes that will never come: let the
			// deadlines expire (virtual time)
			out.Hung = true
			time.Sleep(100 * time.Second)
			if step > 50 && eofSent {
				ce.Close()
				se.Close()
			}
			if step > 200 {
				ce.EndOfStream()
				se.EndOfStream()
				ce.Close()
				se.Close()
			}
			continue
		}
		out.Points = append(out.Points, p)
		ch := pol(len(out.Points)-1, p)
		if ch.Dir == 0 && p.PendC == 0 {
			ch.Dir = 1
		} else if ch.Dir == 1 && p.PendS == 0 {
			ch.Dir = 0
		}
		if ch.Dir == 0 {
			k := ch.K
			if k <= 0 || k > p.PendC {
				k = p.PendC
			}
			ce.Deliver(k)
		} else {
			k := ch.K
			if k <= 0 || k > p.PendS {
				k = p.PendS
			}
			se.Deliver(k)
		}
	}
	<-doneC
	<-doneS
	ce.StopTimers()
	se.StopTimers()
	out.C.Wire = ce.Raw
	out.S.Wire = se.Raw
	return
}

// listPolicy follows a list of explicit choices, then the default.
func listPolicy(l []choice) policy {
	return func(step int, p point) choice {
		if step < len(l) {
			return l[step]
		}
		return choice{0, 0}
	}
}

var errHS = errors.New("handshake harness")
var _ net.Conn = (*vpipe.End)(nil)
