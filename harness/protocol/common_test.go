package protocol

// Shared helpers of the C04/C06 harnesses: conversion between storrent's
// Message values and the independent reference codec, allocation probes.

import (
	"bytes"
	"fmt"
	"reflect"
	"runtime"
	"runtime/metrics"
	"sort"

	"github.com/jech/storrent/pex"
	"github.com/jech/storrent/zzverif/refcodec"
)

func toRefPeers(ps []pex.Peer) []refcodec.Peer {
	var out []refcodec.Peer
	for _, p := range ps {
		out = append(out, refcodec.Peer{Addr: p.Addr, Flags: p.Flags})
	}
	return out
}

func fromRefPeers(ps []refcodec.Peer) []pex.Peer {
	var out []pex.Peer
	for _, p := range ps {
		out = append(out, pex.Peer{Addr: p.Addr, Flags: p.Flags})
	}
	return out
}

// toRef converts a storrent message into the reference representation.
func toRef(m Message) (refcodec.Msg, bool) {
	switch m := m.(type) {
	case KeepAlive:
		return refcodec.Msg{Kind: refcodec.KeepAlive}, true
	case Choke:
		return refcodec.Msg{Kind: refcodec.Choke}, true
	case Unchoke:
		return refcodec.Msg{Kind: refcodec.Unchoke}, true
	case Interested:
		return refcodec.Msg{Kind: refcodec.Interested}, true
	case NotInterested:
		return refcodec.Msg{Kind: refcodec.NotInterested}, true
	case Have:
		return refcodec.Msg{Kind: refcodec.Have, Index: m.Index}, true
	case Bitfield:
		return refcodec.Msg{Kind: refcodec.Bitfield, Data: m.Bitfield}, true
	case Request:
		return refcodec.Msg{Kind: refcodec.Request, Index: m.Index, Begin: m.Begin, Length: m.Length}, true
	case Piece:
		return refcodec.Msg{Kind: refcodec.Piece, Index: m.Index, Begin: m.Begin, Data: m.Data}, true
	case Cancel:
		return refcodec.Msg{Kind: refcodec.Cancel, Index: m.Index, Begin: m.Begin, Length: m.Length}, true
	case Port:
		return refcodec.Msg{Kind: refcodec.Port, Port: m.Port}, true
	case SuggestPiece:
		return refcodec.Msg{Kind: refcodec.Suggest, Index: m.Index}, true
	case RejectRequest:
		return refcodec.Msg{Kind: refcodec.Reject, Index: m.Index, Begin: m.Begin, Length: m.Length}, true
	case AllowedFast:
		return refcodec.Msg{Kind: refcodec.AllowedFast, Index: m.Index}, true
	case HaveAll:
		return refcodec.Msg{Kind: refcodec.HaveAll}, true
	case HaveNone:
		return refcodec.Msg{Kind: refcodec.HaveNone}, true
	case Extended0:
		return refcodec.Msg{Kind: refcodec.Ext0, Version: m.Version, ExtPort: m.Port, ReqQ: m.ReqQ,
			IPv4: m.IPv4, IPv6: m.IPv6, MetadataSize: m.MetadataSize, M: m.Messages,
			UploadOnly: m.UploadOnly, Encrypt: m.Encrypt}, true
	case ExtendedPex:
		return refcodec.Msg{Kind: refcodec.ExtPex, ID: m.Subtype, Added: toRefPeers(m.Added), Dropped: toRefPeers(m.Dropped)}, true
	case ExtendedMetadata:
		return refcodec.Msg{Kind: refcodec.ExtMetadata, ID: m.Subtype, MsgType: m.Type, MPiece: m.Piece, TotalSize: m.TotalSize, Data: m.Data}, true
	case ExtendedDontHave:
		return refcodec.Msg{Kind: refcodec.ExtDontHave, ID: m.Subtype, Index: m.Index}, true
	case ExtendedUploadOnly:
		return refcodec.Msg{Kind: refcodec.ExtUploadOnly, ID: m.Subtype, Value: m.Value}, true
	case ExtendedUnknown:
		return refcodec.Msg{Kind: refcodec.ExtOther, ID: m.Subtype}, true
	case Unknown:
		return refcodec.Msg{Kind: refcodec.Other, ID: m.tpe}, true
	}
	return refcodec.Msg{}, false
}

// peersKey renders a peer list in wire order: the compact format carries IPv4
// and IPv6 peers in two separate strings, so only the order within a family is
// representable.
func peersKey(ps []refcodec.Peer) string {
	var l4, l6 []string
	for _, p := range ps {
		if p.Addr.Addr().Is4() {
			l4 = append(l4, fmt.Sprintf("%v/%d", p.Addr, p.Flags))
		} else {
			l6 = append(l6, fmt.Sprintf("%v/%d", p.Addr, p.Flags))
		}
	}
	return fmt.Sprint(l4, l6)
}

// sameMsg compares two reference messages on the fields their kind defines
// (modulo the documented normalisations: nil vs empty slices/maps).
func sameMsg(a, b refcodec.Msg) string {
	if a.Kind != b.Kind {
		return fmt.Sprintf("kind %s vs %s", a.Kind, b.Kind)
	}
	d := func(name string, x, y any) string {
		if !reflect.DeepEqual(x, y) {
			return fmt.Sprintf("%s: %v vs %v", name, x, y)
		}
		return ""
	}
	switch a.Kind {
	case refcodec.Have, refcodec.Suggest, refcodec.AllowedFast:
		return d("index", a.Index, b.Index)
	case refcodec.Bitfield:
		if !bytes.Equal(a.Data, b.Data) {
			return "bitfield bytes differ"
		}
	case refcodec.Request, refcodec.Cancel, refcodec.Reject:
		return d("triple", [3]uint32{a.Index, a.Begin, a.Length}, [3]uint32{b.Index, b.Begin, b.Length})
	case refcodec.Piece:
		if s := d("index/begin", [2]uint32{a.Index, a.Begin}, [2]uint32{b.Index, b.Begin}); s != "" {
			return s
		}
		if !bytes.Equal(a.Data, b.Data) {
			return "block bytes differ"
		}
	case refcodec.Port:
		return d("port", a.Port, b.Port)
	case refcodec.Ext0:
		for _, s := range []string{
			d("v", a.Version, b.Version), d("p", a.ExtPort, b.ExtPort), d("reqq", a.ReqQ, b.ReqQ),
			d("ipv4", a.IPv4, b.IPv4), d("ipv6", a.IPv6, b.IPv6), d("metadata_size", a.MetadataSize, b.MetadataSize),
			d("upload_only", a.UploadOnly, b.UploadOnly), d("e", a.Encrypt, b.Encrypt)} {
			if s != "" {
				return s
			}
		}
		if len(a.M) != len(b.M) {
			return fmt.Sprintf("m: %v vs %v", a.M, b.M)
		}
		for k, v := range a.M {
			if w, ok := b.M[k]; !ok || w != v {
				return fmt.Sprintf("m[%s]: %v vs %v", k, v, w)
			}
		}
	case refcodec.ExtPex:
		if s := d("subtype", a.ID, b.ID); s != "" {
			return s
		}
		if peersKey(a.Added) != peersKey(b.Added) {
			return fmt.Sprintf("added: %v vs %v", peersKey(a.Added), peersKey(b.Added))
		}
		if peersKey(a.Dropped) != peersKey(b.Dropped) {
			return fmt.Sprintf("dropped: %v vs %v", peersKey(a.Dropped), peersKey(b.Dropped))
		}
	case refcodec.ExtMetadata:
		for _, s := range []string{d("subtype", a.ID, b.ID), d("msg_type", a.MsgType, b.MsgType), d("piece", a.MPiece, b.MPiece), d("total_size", a.TotalSize, b.TotalSize)} {
			if s != "" {
				return s
			}
		}
		if !bytes.Equal(a.Data, b.Data) {
			return "metadata bytes differ"
		}
	case refcodec.ExtDontHave:
		return d("subtype/index", [2]uint32{uint32(a.ID), a.Index}, [2]uint32{uint32(b.ID), b.Index})
	case refcodec.ExtUploadOnly:
		return d("subtype/value", fmt.Sprint(a.ID, a.Value), fmt.Sprint(b.ID, b.Value))
	case refcodec.ExtOther, refcodec.Other:
		return d("id", a.ID, b.ID)
	}
	return ""
}

// allocation probe ----------------------------------------------------------

var allocSample = []metrics.Sample{{Name: "/gc/heap/allocs:bytes"}}

// allocNow returns the cumulative number of heap bytes allocated.  Large
// objects (the ones the memory oracles are after) are accounted immediately;
// small ones when their span is flushed, so a reading can lag by a few hundred
// KiB.  A suspicious delta is always re-measured with exactAlloc.
func allocNow() uint64 {
	metrics.Read(allocSample)
	return allocSample[0].Value.Uint64()
}

// exactAlloc measures the bytes allocated by f exactly (stop-the-world).
func exactAlloc(f func()) uint64 {
	var a, b runtime.MemStats
	runtime.ReadMemStats(&a)
	f()
	runtime.ReadMemStats(&b)
	return b.TotalAlloc - a.TotalAlloc
}

func sortedKeys(m map[string]int) []string {
	var l []string
	for k := range m {
		l = append(l, k)
	}
	sort.Strings(l)
	return l
}
