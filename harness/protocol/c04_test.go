package protocol

// C04: wire decoding is total, exactly framed and memory-bounded.  Engine C:
// bounded-exhaustive enumeration of frames (announced length x message id x
// extended sub-id x body shape x truncation point x delivery pattern) against
// protocol.Read, judged against the independent reference codec.

import (
	"runtime/debug"
	"bufio"
	"bytes"
	"encoding/binary"
	"fmt"
	"io"
	"log"
	"os"
	"strconv"
	"strings"
	"testing"

	"github.com/jech/storrent/zzverif/refcodec"
	"github.com/jech/storrent/zzverif/vh"
)

// cutReader delivers data in the given segment sizes (then whatever is left),
// never more than one segment per Read call.
type cutReader struct {
	data []byte
	pos  int
	segs []int // successive maximal read sizes; after they are used up, unlimited
	k    int
	one  bool // byte-at-a-time
}

func (c *cutReader) Read(p []byte) (int, error) {
	if c.pos >= len(c.data) {
		return 0, io.EOF
	}
	n := len(c.data) - c.pos
	if c.one {
		n = 1
	} else if c.k < len(c.segs) {
		if c.segs[c.k] < n {
			n = c.segs[c.k]
		}
		c.k++
	}
	if n > len(p) {
		n = len(p)
	}
	copy(p, c.data[c.pos:c.pos+n])
	c.pos += n
	return n, nil
}

var sentinelA = []byte{0, 0, 0, 5, 4, 0xA5, 0xA5, 0xA5, 0xA5} // Have{0xA5A5A5A5}
var sentinelB = []byte{0, 0, 0, 5, 4, 0x5A, 0x5A, 0x5A, 0x5B} // a different continuation

type wireCase struct {
	L        uint32 // announced length
	Body     []byte // bytes present after the prefix (may be shorter than L = truncated stream)
	Sentinel bool   // a complete frame follows (only when Body is complete)
	Segs     []int
	One      bool
	Log      bool // Read is given a logger (the logging paths read parts of the payload for display)
}

func (c wireCase) describe() map[string]any {
	b := c.Body
	if len(b) > 64 {
		b = b[:64]
	}
	return map[string]any{"L": c.L, "body_present": len(c.Body), "body_prefix_hex": fmt.Sprintf("%x", b),
		"sentinel": c.Sentinel, "segs": c.Segs, "byte_at_a_time": c.One, "logger": c.Log}
}

type wireReplay struct {
	L       uint32 `json:"L"`
	BodyHex string `json:"body_hex"`
	BodyGen string `json:"body_gen,omitempty"` // generator expression for large bodies
	Sent    bool   `json:"sentinel"`
	Segs    []int  `json:"segs"`
	One     bool   `json:"one"`
	Log     bool   `json:"log,omitempty"`
}

type readOutcome struct {
	msg      Message
	err      error
	panicked any
	consumed int
	next     Message
	nextErr  error
	alloc    uint64
}

var discardLogger = log.New(io.Discard, "", 0)

func runRead(c wireCase, sentinel []byte, measure bool) (o readOutcome) {
	stream := make([]byte, 0, 4+len(c.Body)+len(sentinel))
	stream = binary.BigEndian.AppendUint32(stream, c.L)
	stream = append(stream, c.Body...)
	if c.Sentinel {
		stream = append(stream, sentinel...)
	}
	src := &cutReader{data: stream, segs: c.Segs, one: c.One}
	r := bufio.NewReader(src)
	var a0 uint64
	if measure {
		a0 = allocNow()
	}
	func() {
		defer func() {
			if p := recover(); p != nil {
				o.panicked = p
			}
		}()
		var lg *log.Logger
		if c.Log {
			lg = discardLogger
		}
		o.msg, o.err = Read(r, lg)
	}()
	if measure {
		o.alloc = allocNow() - a0
	}
	o.consumed = src.pos - r.Buffered()
	if o.panicked == nil && o.err == nil && c.Sentinel {
		func() {
			defer func() {
				if p := recover(); p != nil {
					o.nextErr = fmt.Errorf("panic: %v", p)
				}
			}()
			o.next, o.nextErr = Read(r, nil)
		}()
	}
	return
}

func msgString(m Message) string {
	if p, ok := m.(Piece); ok {
		return fmt.Sprintf("Piece{%d,%d,%d bytes}", p.Index, p.Begin, len(p.Data))
	}
	if b, ok := m.(Bitfield); ok && len(b.Bitfield) > 32 {
		return fmt.Sprintf("Bitfield{%d bytes}", len(b.Bitfield))
	}
	if e, ok := m.(ExtendedMetadata); ok && len(e.Data) > 32 {
		return fmt.Sprintf("ExtendedMetadata{%d %d %d %d, %d bytes}", e.Subtype, e.Type, e.Piece, e.TotalSize, len(e.Data))
	}
	return fmt.Sprintf("%#v", m)
}

// hasOverlongString reports whether the (bencoded part of the) payload
// declares a string longer than what remains of the frame.
func hasOverlongString(p []byte) bool {
	for i := 0; i < len(p); i++ {
		if p[i] >= '1' && p[i] <= '9' && (i == 0 || p[i-1] < '0' || p[i-1] > '9') {
			j := i
			for j < len(p) && p[j] >= '0' && p[j] <= '9' {
				j++
			}
			if j < len(p) && p[j] == ':' {
				n, err := strconv.ParseInt(string(p[i:j]), 10, 64)
				if err == nil && n > int64(len(p)-j-1) {
					return true
				}
			}
		}
	}
	return false
}

func idOf(c wireCase) (string, byte, byte) {
	if c.L == 0 || len(c.Body) == 0 {
		return "none", 0, 0
	}
	if c.Body[0] == 20 && len(c.Body) > 1 {
		return fmt.Sprintf("id20/sub%d", c.Body[1]), 20, c.Body[1]
	}
	return fmt.Sprintf("id%d", c.Body[0]), c.Body[0], 0
}

type c04 struct {
	res      *vh.Result
	nontriv  map[string]bool
	maxRatio float64
}

// judge runs one case and evaluates the C04 oracle.
func (h *c04) judge(c wireCase) {
	o := runRead(c, sentinelA, true)
	h.res.Add("evaluations", 1)
	ids, id, _ := idOf(c)
	complete := uint64(len(c.Body)) >= uint64(c.L)
	rp := wireReplay{L: c.L, Sent: c.Sentinel, Segs: c.Segs, One: c.One, Log: c.Log}
	if len(c.Body) <= 4096 {
		rp.BodyHex = fmt.Sprintf("%x", c.Body)
	} else {
		rp.BodyGen = fmt.Sprintf("%x + repeat(%02x, %d)", c.Body[:64], c.Body[len(c.Body)-1], len(c.Body)-64)
		rp.BodyHex = fmt.Sprintf("%x", c.Body)
	}
	viol := func(key, format string, a ...any) {
		h.res.Violate(key, fmt.Sprintf(format, a...)+fmt.Sprintf("  [case %v]", c.describe()), rp)
	}
	if o.panicked != nil {
		viol("C04/panic/"+ids, "protocol.Read panicked: %v", o.panicked)
		return
	}
	if o.msg == nil && o.err == nil {
		viol("C04/nil-nil/"+ids, "protocol.Read returned no message and no error (L=%d)", c.L)
		return
	}
	if o.msg != nil && o.err != nil {
		viol("C04/both/"+ids, "protocol.Read returned both a message (%s) and an error (%v)", msgString(o.msg), o.err)
		return
	}
	if c.L > 1024*1024 {
		if o.err == nil {
			viol("C04/cap/"+ids, "a frame of announced length %d (> 1 MiB) was accepted", c.L)
		} else if o.consumed > 4 {
			viol("C04/cap-read/"+ids, "a frame of announced length %d was refused only after %d bytes had been consumed", c.L, o.consumed)
		}
	}
	if complete && o.consumed > 4+int(c.L) {
		viol("C04/read-beyond-frame/"+ids, "protocol.Read (result %v / %v) consumed %d bytes of the stream; the frame ends after %d", o.msg, o.err, o.consumed, 4+int(c.L))
		return
	}
	if o.err == nil {
		if !complete {
			viol("C04/truncated-accepted/"+ids, "a frame with only %d of %d announced bytes present decoded to %s", len(c.Body), c.L, msgString(o.msg))
			return
		}
		if o.consumed != 4+int(c.L) {
			viol("C04/consumed/"+ids, "decoding %s consumed %d bytes, the frame has %d", msgString(o.msg), o.consumed, 4+int(c.L))
			return
		}
		if c.Sentinel {
			if hv, ok := o.next.(Have); !ok || hv.Index != 0xA5A5A5A5 || o.nextErr != nil {
				viol("C04/next-frame/"+ids, "after %s the following frame decoded to %v / %v instead of Have{0xA5A5A5A5}", msgString(o.msg), o.next, o.nextErr)
				return
			}
		}
		// agreement with the reference codec where it accepts the frame
		fr := append(binary.BigEndian.AppendUint32(nil, c.L), c.Body[:c.L]...)
		if ref, err := refcodec.Decode(fr, refcodec.StorrentIDs); err == nil {
			got, ok := toRef(o.msg)
			if !ok {
				viol("C04/not-a-message/"+ids, "protocol.Read returned %T", o.msg)
			} else if d := sameMsg(got, ref); d != "" {
				viol("C04/differs-from-reference/"+ids, "protocol.Read decoded %s, the reference codec disagrees: %s", msgString(o.msg), d)
			}
		}
		if id != 0 || c.L > 1 {
			h.nontriv[fmt.Sprintf("ok/%s/%T/%d", ids, o.msg, c.L)] = true
		}
	} else {
		h.nontriv[fmt.Sprintf("err/%s/%d/%v", ids, c.L, complete)] = true
	}
	// no byte beyond the frame may influence the result
	if c.Sentinel && complete {
		o2 := runRead(c, sentinelB, false)
		same := (o.err == nil) == (o2.err == nil) && (o.panicked == nil) == (o2.panicked == nil)
		if same && o.err == nil {
			a, _ := toRef(o.msg)
			b, _ := toRef(o2.msg)
			same = sameMsg(a, b) == ""
		}
		if same && o.err != nil && o2.err != nil && o.err.Error() != o2.err.Error() {
			same = false
		}
		if !same {
			viol("C04/depends-on-next-frame/"+ids, "the outcome changes with the bytes that follow the frame: %v/%v vs %v/%v", o.msg, o.err, o2.msg, o2.err)
		}
	}
	// memory: at most a small multiple of the announced frame length
	L := uint64(c.L)
	if L > 1024*1024 {
		L = 0
	}
	bound := 64*L + 1<<20
	if o.alloc > bound/2 {
		// re-measure exactly before believing it
		ex := exactAlloc(func() { runRead(c, sentinelA, false) })
		if ex > bound {
			key := "C04/alloc/" + ids
			if len(c.Body) > 2 && hasOverlongString(c.Body[2:]) {
				key = "C04/alloc/bencode-string-length>frame"
			} else if len(c.Body) > 1000 && (bytes.Count(c.Body, []byte("l")) > len(c.Body)/2 || bytes.Count(c.Body, []byte("d1:a")) > len(c.Body)/8) {
				key = "C04/alloc/bencode-nesting-depth"
			}
			viol(key, "decoding a frame of announced length %d (%d bytes present) allocated %d bytes (bound %d)", c.L, len(c.Body), ex, bound)
		}
	}
	if c.L > 0 && c.L <= 1<<20 {
		if r := float64(o.alloc) / float64(c.L); r > h.maxRatio && o.alloc > 4096 {
			h.maxRatio = r
		}
	}
}

// deliveries runs c as a whole, byte-at-a-time and with every single cut.
func (h *c04) deliveries(c wireCase, allCuts bool) {
	h.judge(c)
	c2 := c
	c2.One = true
	h.judge(c2)
	cl := c
	cl.Log = true
	h.judge(cl)
	if allCuts {
		total := 4 + len(c.Body)
		for k := 1; k < total; k++ {
			c3 := c
			c3.Segs = []int{k}
			h.judge(c3)
		}
	}
}

func shapes(L int, id byte, sub int) [][]byte {
	mk := func(fill func(i int) byte) []byte {
		b := make([]byte, L)
		for i := range b {
			b[i] = fill(i)
		}
		if L > 0 {
			b[0] = id
		}
		if sub >= 0 && L > 1 {
			b[1] = byte(sub)
		}
		return b
	}
	out := [][]byte{
		mk(func(int) byte { return 0 }),
		mk(func(int) byte { return 0xFF }),
		mk(func(i int) byte { return byte(i*37 + 1) }),
	}
	if sub >= 0 && L > 2 {
		// a syntactically valid empty dictionary followed by filler: makes the
		// bencode decoders succeed so the framing around them is exercised
		b := mk(func(int) byte { return 'x' })
		b[2] = 'd'
		if L > 3 {
			b[3] = 'e'
		}
		out = append(out, b)
		// a metadata-style dictionary if it fits
		d := []byte("d8:msg_typei1e5:piecei0ee")
		if L >= 2+len(d) {
			b := mk(func(int) byte { return 'y' })
			copy(b[2:], d)
			out = append(out, b)
		}
	}
	return out
}

func hostileValues() []string {
	return []string{
		"i0e", "i1e", "i-1e", "i255e", "i256e", "i65535e", "i65536e", "i4294967295e", "i4294967296e",
		"i9223372036854775807e", "i9223372036854775808e", "i99999999999999999999999e", "i-0e", "i03e", "ie", "i1", "i1x2e",
		"0:", "1:a", "3:abc", "4:\x01\x02\x03\x04", "5:\x01\x02\x03\x04\x05", "6:\x01\x02\x03\x04\x00\x50", "7:\x01\x02\x03\x04\x00\x50\x00",
		"16:0123456789abcdef", "18:0123456789abcdef\x00\x50", "17:0123456789abcdefg",
		"1:0", "1:1", "2:10", "03:abc", "-1:", "-0:", "9:abc", "100:abc", "65536:x", "1048576:x", "2147483647:", "2147483647:x",
		"2147483648:", "99999999999:", "4294967296:x", "18446744073709551616:",
		"le", "li1ee", "l3:abce", "lllleeee", "l", "li1e", "de", "d1:ai1ee", "d1:a", "d1:ai1e", "d1:bi1e1:ai2ee", "d1:ai1e1:ai2ee",
		"di1ei2ee", "d1:ad1:bd1:cd1:dleeeee", "x", "", "e", ":", "d3:fooli1ei2ee3:bar3:baze",
		"d6:ut_pexi1e11:ut_metadatai2ee", "d6:ut_pexi256ee", "d6:ut_pexi-1ee", "d6:ut_pex1:1e", "d0:i1ee", "d6:ut_pexlee",
	}
}

func frameOf(body []byte) wireCase {
	return wireCase{L: uint32(len(body)), Body: body, Sentinel: true}
}

func TestVerifC04(t *testing.T) {
	if os.Getenv("VERIF_OUT") == "" && vh.ReplayFile() == "" {
		t.Skip("verif harness: run through /verif/run")
	}
	res := vh.NewResult("C04")
	h := &c04{res: res, nontriv: map[string]bool{}}
	defer func() {
		res.Add("distinct_nontrivial", int64(len(h.nontriv)))
		res.Info["max_alloc_ratio_observed_x1000"] = int64(h.maxRatio * 1000)
		if err := res.Write(); err != nil {
			t.Error(err)
		}
	}()
	// warm the pools so that their one-off allocations are not attributed
	for i := 0; i < 4; i++ {
		PutBuffer(GetBuffer(16384))
	}

	if vh.ReplayFile() != "" {
		var rp wireReplay
		if err := vh.LoadReplay(&rp); err != nil {
			t.Fatal(err)
		}
		body := make([]byte, len(rp.BodyHex)/2)
		fmt.Sscanf(rp.BodyHex, "%x", &body)
		c := wireCase{L: rp.L, Body: body, Sentinel: rp.Sent, Segs: rp.Segs, One: rp.One, Log: rp.Log}
		fmt.Printf("case: %v\n", c.describe())
		o := runRead(c, sentinelA, false)
		fmt.Printf("Read -> msg=%v err=%v panic=%v consumed=%d next=%v/%v\n", o.msg, o.err, o.panicked, o.consumed, o.next, o.nextErr)
		h.judge(c)
		for _, v := range res.Violations {
			fmt.Printf("RESULT: violation %s: %s\n", v.Key, v.Message)
		}
		if len(res.Violations) == 0 {
			fmt.Println("RESULT: property held on this case")
		}
		return
	}

	maxL := 32
	if vh.Thorough() {
		maxL = 48
	}
	work := 0
	mine := func() bool { work++; return vh.Mine(work) }

	// A. every small frame: L x id x (sub-id for id 20) x shape x truncation x delivery
	for L := 0; L <= maxL; L++ {
		for id := 0; id < 256; id++ {
			subs := []int{-1}
			if id == 20 && L >= 2 {
				subs = subs[:0]
				for s := 0; s < 256; s++ {
					subs = append(subs, s)
				}
			}
			for _, sub := range subs {
				if !mine() {
					continue
				}
				if vh.Expired() {
					res.NotExhaustive("deadline in the small-frame enumeration")
					return
				}
				for si, body := range shapes(L, byte(id), sub) {
					if L == 0 && si > 0 {
						break
					}
					// interesting ids get every single cut point; the rest whole + bytewise
					all := id <= 20 || id == 255 || id == 21
					if sub > 5 && sub != 255 {
						all = false
					}
					h.deliveries(frameOf(body), all && si < 4)
					// every truncation point of the body (stream ends inside the frame)
					if si == 0 || si == 3 {
						for k := 0; k < L; k++ {
							c := wireCase{L: uint32(L), Body: body[:k]}
							h.judge(c)
							c.One = true
							h.judge(c)
						}
					}
				}
			}
		}
	}
	if mine() {
		res.Sample(frameOf(shapes(13, 6, -1)[2]).describe())
		res.Sample(wireCase{L: 9, Body: shapes(9, 20, 2)[3][:5]}.describe())
	}

	// A2. histories: the payload buffer of a decoded Piece is handed back (PutBuffer), as the
	// peer does once the block is stored, and the next frame is decoded - on the
	// same stream or on another one.  Every pair of Piece payload lengths around
	// the block size; the second decode is judged like any other (exact
	// consumption, payload length and content).
	if mine() {
		lens := []int{0, 1, 100, 16383, 16384, 16385}
		for _, l1 := range lens {
			for _, l2 := range lens {
				for _, release := range []string{"put", "keep", "put-truncated"} {
					h.res.Add("evaluations", 1)
					mkp := func(l int, seed byte) []byte {
						b := make([]byte, 9+l)
						b[0] = 7
						b[4] = 1 // index 1... begin 0
						for i := 9; i < len(b); i++ {
							b[i] = byte(i)*3 + seed
						}
						return append(binary.BigEndian.AppendUint32(nil, uint32(len(b))), b...)
					}
					f1, f2 := mkp(l1, 1), mkp(l2, 2)
					r := bufio.NewReader(bytes.NewReader(append(append([]byte{}, f1...), f2...)))
					m1, err1 := Read(r, nil)
					if p, ok := m1.(Piece); ok && err1 == nil {
						switch release {
						case "put":
							PutBuffer(p.Data)
						case "put-truncated":
							if len(p.Data) > 0 {
								PutBuffer(p.Data[:len(p.Data)/2])
							}
						}
					}
					m2, err2 := Read(r, nil)
					desc := fmt.Sprintf("[Piece of %d bytes decoded, buffer %s, then a Piece of %d bytes]", l1, release, l2)
					rp := map[string]any{"kind": "release-history", "l1": l1, "l2": l2, "release": release}
					p2, ok := m2.(Piece)
					if err2 != nil || !ok {
						h.res.Violate("C04/history/second-frame", fmt.Sprintf("the second frame decodes to %v / %v %s", m2, err2, desc), rp)
						continue
					}
					if len(p2.Data) != l2 || !bytes.Equal(p2.Data, f2[13:]) {
						h.res.Violate("C04/history/second-frame", fmt.Sprintf("the second frame decodes to a Piece of %d bytes (or other content) %s", len(p2.Data), desc), rp)
						continue
					}
					if r.Buffered() != 0 {
						h.res.Violate("C04/history/consumed", fmt.Sprintf("after both frames %d bytes of the stream are left %s", r.Buffered(), desc), rp)
					}
					h.nontriv[fmt.Sprintf("hist/%d/%d/%s", l1, l2, release)] = true
				}
			}
		}
	}

	// B. large announced lengths
	bigL := []uint32{1<<14 + 8, 1<<14 + 9, 1<<14 + 10, 1<<14 + 13, 1<<20 - 1, 1 << 20, 1<<20 + 1, 1<<31 - 1, 1 << 31, 1<<32 - 2, 1<<32 - 1}
	bigIDs := [][2]int{{0, -1}, {4, -1}, {5, -1}, {6, -1}, {7, -1}, {9, -1}, {14, -1}, {17, -1}, {21, -1}, {255, -1},
		{20, 0}, {20, 1}, {20, 2}, {20, 3}, {20, 4}, {20, 5}, {20, 255}}
	for _, L := range bigL {
		for _, is := range bigIDs {
			if !mine() {
				continue
			}
			present := []int{0, 1, 2, 9, 100}
			if L <= 1<<20 {
				present = append(present, int(L)-1, int(L))
			}
			for _, n := range present {
				body := make([]byte, n)
				for i := range body {
					body[i] = byte(i * 13)
				}
				if n > 0 {
					body[0] = byte(is[0])
				}
				if n > 1 && is[1] >= 0 {
					body[1] = byte(is[1])
					if n > 3 {
						body[2], body[3] = 'd', 'e'
					}
				}
				c := wireCase{L: L, Body: body, Sentinel: uint64(n) == uint64(L)}
				h.judge(c)
				if n <= 100 {
					c.One = true
					h.judge(c)
				}
			}
		}
	}

	// C. hostile bencoded payloads in the three bencode-carrying extended messages
	keys := map[int][]string{
		0: {"v", "p", "reqq", "metadata_size", "m", "ipv4", "ipv6", "upload_only", "e", "yourip", "zz"},
		1: {"added", "added.f", "added6", "added6.f", "dropped", "dropped6", "zz"},
		2: {"msg_type", "piece", "total_size", "zz"},
	}
	hv := hostileValues()
	giant := 0
	for sub := 0; sub <= 2; sub++ {
		var payloads []string
		for _, v := range hv {
			payloads = append(payloads, v) // top level is the hostile value itself
			for _, k := range keys[sub] {
				payloads = append(payloads, fmt.Sprintf("d%d:%s%se", len(k), k, v))
				payloads = append(payloads, fmt.Sprintf("d%d:%s%se<trailing>", len(k), k, v))
			}
		}
		// pairs of keys (canonical and reversed order, duplicate keys)
		small := []string{"i1e", "i-1e", "i4294967296e", "0:", "6:\x01\x02\x03\x04\x00\x50", "5:abcde", "le", "de", "2147483647:"}
		for _, k1 := range keys[sub] {
			for _, k2 := range keys[sub] {
				for _, v1 := range small {
					for _, v2 := range small {
						payloads = append(payloads, fmt.Sprintf("d%d:%s%s%d:%s%se", len(k1), k1, v1, len(k2), k2, v2))
					}
				}
			}
		}
		if sub == 2 {
			for _, t := range []string{"i0e", "i1e", "i2e", "i3e", "i255e", "i256e"} {
				for _, p := range []string{"i0e", "i1e", "i4294967295e", "i4294967296e", "i-1e"} {
					for _, ts := range []string{"", "10:total_sizei0e", "10:total_sizei16384e", "10:total_sizei4294967296e"} {
						for _, data := range []string{"", "x", strings.Repeat("z", 16384), strings.Repeat("z", 16385)} {
							payloads = append(payloads, fmt.Sprintf("d8:msg_type%s5:piece%s%se%s", t, p, ts, data))
						}
					}
				}
			}
		}
		for _, p := range payloads {
			if !mine() {
				continue
			}
			if vh.Expired() {
				res.NotExhaustive("deadline in the hostile-bencode enumeration")
				return
			}
			body := append([]byte{20, byte(sub)}, p...)
			if strings.Contains(p, "2147483647:") {
				// each of these makes the bencode library allocate 2 GiB (the
				// known finding); one delivery per payload is enough, and only
				// a few of them are run at all
				// (run in TestVerifC04Deep, one process, memory returned
				// to the OS after each)
				giant++
				continue
			}
			h.deliveries(frameOf(body), len(body) <= 40 && sub < 2)
			if len(body) > 3 && len(body) < 200 {
				// truncated in the middle and one byte short
				h.judge(wireCase{L: uint32(len(body)), Body: body[:len(body)/2]})
				h.judge(wireCase{L: uint32(len(body)), Body: body[:len(body)-1]})
			}
		}
	}
	if mine() {
		res.Sample(frameOf(append([]byte{20, 0}, "d1:v2147483647:e"...)).describe())
	}
}

// TestVerifC04Deep holds the few cases that can kill the process outright
// (stack exhaustion) if the property is violated; it runs in its own worker and
// checkpoints each case so that the runner can attribute a crash.
func TestVerifC04Deep(t *testing.T) {
	if os.Getenv("VERIF_OUT") == "" && vh.ReplayFile() == "" {
		t.Skip("verif harness: run through /verif/run")
	}
	res := vh.NewResult("C04")
	h := &c04{res: res, nontriv: map[string]bool{}}
	res.Property = "C04"
	defer func() {
		res.Add("distinct_nontrivial", int64(len(h.nontriv)))
		vh.ClearCheckpoint("C04")
		// a distinct file name so as not to clobber shard 0 of the main job
		os.Setenv("VERIF_SHARD", "99/100")
		if err := res.Write(); err != nil {
			t.Error(err)
		}
	}()
	depths := []int{1000, 10000, 60000, 100000, 1048000}
	if vh.ReplayFile() != "" {
		var rp struct {
			Sub, Depth int
			Open       string
		}
		if err := vh.LoadReplay(&rp); err != nil {
			t.Fatal(err)
		}
		p := bytes.Repeat([]byte(rp.Open), rp.Depth)
		body := append([]byte{20, byte(rp.Sub)}, append([]byte("d2:zz"), p...)...)
		h.judge(frameOf(body))
		fmt.Printf("violations: %v\n", res.Violations)
		return
	}
	// declared string lengths of 2 GiB: each makes the bencode library allocate
	// 2 GiB for a frame of a few bytes
	for sub := 0; sub <= 2; sub++ {
		for _, p := range []string{"2147483647:", "d1:v2147483647:e", "d2:zz2147483647:xe", "d5:added2147483647:e", "d8:msg_type2147483647:e"} {
			vh.Checkpoint("C04", map[string]any{"Sub": sub, "Depth": 0, "Open": p})
			body := append([]byte{20, byte(sub)}, p...)
			h.judge(frameOf(body))
			debug.FreeOSMemory()
		}
	}
	for _, depth := range depths {
		for sub := 0; sub <= 2; sub++ {
			for _, open := range []string{"l", "d1:a"} {
				if (depth+1)*len(open)+8 > 1<<20 {
					continue
				}
				vh.CheckpointKey("C04", "C04/crash/bencode-nesting-depth", map[string]any{"Sub": sub, "Depth": depth, "Open": open})
				res.Counters["distinct_nontrivial"] = int64(len(h.nontriv))
				os.Setenv("VERIF_SHARD", "99/100")
				res.Write()
				os.Setenv("VERIF_SHARD", "0/1")
				p := bytes.Repeat([]byte(open), depth)
				// unterminated deep nesting under an unknown key, and at top level
				body := append([]byte{20, byte(sub)}, append([]byte("d2:zz"), p...)...)
				h.judge(frameOf(body))
				body2 := append([]byte{20, byte(sub)}, p...)
				h.judge(frameOf(body2))
				// properly closed nesting
				closer := "e"
				body3 := append(append([]byte{20, byte(sub)}, p...), bytes.Repeat([]byte(closer), depth)...)
				if len(body3) <= 1<<20 {
					h.judge(frameOf(body3))
				}
			}
		}
	}
}
