package protocol

// C08 (part 1): encryption policy over all 64 x 64 option pairs and both
// handshake kinds, crypto_provide / crypto_select sweeps against the
// independent MSE implementation, raw bytes on the wire judged against the
// policy of each end.

import (
	"crypto/sha1"
	"bytes"
	"fmt"
	"os"
	"testing"

	"github.com/jech/storrent/crypto"
	"github.com/jech/storrent/zzverif/refmse"
	"github.com/jech/storrent/zzverif/vh"
)

const c08Payload = 400

func containsWindow(hay, needle []byte, w int) bool {
	for i := 0; i+w <= len(needle); i += w {
		if bytes.Contains(hay, needle[i:i+w]) {
			return true
		}
	}
	return false
}

type c08 struct {
	t       *testing.T
	res     *vh.Result
	nontriv map[string]bool
}

// judge evaluates one established (or refused) connection against both ends' policies.
func (h *c08) judge(cfg hsConfig, r hsRun, what string) {
	h.res.Add("evaluations", 1)
	rp := hsReplay{cfg, nil, "coalesced"}
	kind := "plain"
	if cfg.MSE {
		kind = "mse"
	}
	viol := func(key, format string, a ...any) {
		h.res.Violate(key, fmt.Sprintf(format, a...)+fmt.Sprintf("  [%s; config %s]", what, cfg), rp)
	}
	if r.C.OK != r.S.OK {
		// one side believes the connection is up, the other has given up: the
		// believer's payload goes nowhere; not a policy violation in itself
		h.nontriv["half/"+kind] = true
	}
	if !r.C.OK && !r.S.OK {
		h.nontriv[fmt.Sprintf("refused/%s", kind)] = true
		return
	}
	checkSide := func(name string, o sideOutcome, opts crypto.Options, isRef bool, peerOK bool) {
		if !o.OK || isRef {
			return
		}
		cls := fmt.Sprintf("%s/%s/fE=%v,aE=%v,fH=%v,aH=%v", name, kind, opts.ForceEncryption, opts.AllowEncryption, opts.ForceCryptoHandshake, opts.AllowCryptoHandshake)
		if o.Encrypted && !opts.AllowEncryption {
			viol("C08/policy/rc4-not-allowed/"+cls, "the %s established an RC4-encrypted connection although its policy does not allow encryption (%s)", name, optString(opts))
		}
		if !o.Encrypted && opts.ForceEncryption {
			viol("C08/policy/plaintext-although-forced/"+cls, "the %s established a plaintext connection although its policy forces encryption (%s)", name, optString(opts))
		}
		if name == "server" {
			if cfg.MSE && !opts.AllowCryptoHandshake {
				viol("C08/policy/mse-handshake-not-allowed/"+cls, "the server accepted an MSE handshake its policy does not allow (%s)", optString(opts))
			}
			if !cfg.MSE && opts.ForceCryptoHandshake {
				viol("C08/policy/plain-handshake-although-forced/"+cls, "the server accepted a plaintext handshake although its policy forces the crypto handshake (%s)", optString(opts))
			}
		} else if cfg.MSE && !opts.AllowCryptoHandshake {
			viol("C08/policy/mse-handshake-not-allowed/"+cls, "the client performed an MSE handshake its policy does not allow (%s)", optString(opts))
		}
		// the bytes this side put on the wire after the handshake
		if len(o.SentEarly) > 0 && len(o.Wire) >= len(o.SentEarly) {
			raw := o.Wire[len(o.Wire)-len(o.SentEarly):]
			if o.Encrypted {
				if bytes.Equal(raw, o.SentEarly) || containsWindow(raw, o.SentEarly, 16) {
					viol("C08/wire/plaintext-on-encrypted/"+cls, "the %s reports an encrypted connection but its payload crossed the wire in clear", name)
				}
			} else if !bytes.Equal(raw, o.SentEarly) {
				viol("C08/wire/garbled-plaintext/"+cls, "the %s reports a plaintext connection but the wire bytes differ from its payload", name)
			}
			if opts.ForceEncryption && containsWindow(o.Wire, o.SentEarly, 16) {
				viol("C08/wire/payload-in-clear-although-forced/"+cls, "the %s forces encryption, yet its payload is visible on the wire", name)
			}
		}
	}
	checkSide("client", r.C, cfg.COpts, cfg.ClientRef, r.S.OK)
	checkSide("server", r.S, cfg.SOpts, cfg.ServerRef, r.C.OK)
	if r.C.OK && r.S.OK {
		if r.C.Encrypted != r.S.Encrypted {
			viol("C08/mode-disagreement/"+kind, "the two ends disagree on the mode: client encrypted=%v, server encrypted=%v", r.C.Encrypted, r.S.Encrypted)
		}
		if !bytes.Equal(r.C.Received, r.S.SentEarly) || !bytes.Equal(r.S.Received, r.C.SentEarly) {
			viol("C08/stream-not-transparent/"+kind, "payload is not transmitted faithfully (client got %d/%d bytes, server got %d/%d)", len(r.C.Received), len(r.S.SentEarly), len(r.S.Received), len(r.C.SentEarly))
		}
		h.nontriv[fmt.Sprintf("established/%s/enc=%v/ref=%v%v", kind, r.C.Encrypted, cfg.ClientRef, cfg.ServerRef)] = true
		h.res.Add("established", 1)
	}
}

func TestVerifC08(t *testing.T) {
	if os.Getenv("VERIF_OUT") == "" && vh.ReplayFile() == "" {
		t.Skip("verif harness: run through /verif/run")
	}
	res := vh.NewResult("C08")
	h := &c08{t: t, res: res, nontriv: map[string]bool{}}
	defer func() {
		res.Add("distinct_nontrivial", int64(len(h.nontriv)))
		if err := res.Write(); err != nil {
			t.Error(err)
		}
	}()
	if vh.ReplayFile() != "" {
		var rp hsReplay
		if err := vh.LoadReplay(&rp); err != nil {
			t.Fatal(err)
		}
		r := runHandshake(t, rp.Cfg, defaultPolicy)
		fmt.Printf("config: %s\nclient: ok=%v err=%q encrypted=%v\nserver: ok=%v err=%q encrypted=%v\n", rp.Cfg, r.C.OK, r.C.Err, r.C.Encrypted, r.S.OK, r.S.Err, r.S.Encrypted)
		h.judge(rp.Cfg, r, "replay")
		for _, v := range res.Violations {
			fmt.Printf("RESULT: violation %s: %s\n", v.Key, v.Message)
		}
		if len(res.Violations) == 0 {
			fmt.Println("RESULT: property held on this execution")
		}
		return
	}
	work := 0
	mine := func() bool { work++; return vh.Mine(work) }
	// (a) the full policy table
	for c := 0; c < 64; c++ {
		for s := 0; s < 64; s++ {
			if !mine() {
				continue
			}
			for _, mse := range []bool{false, true} {
				cfg := hsConfig{MSE: mse, COpts: optsFromBits(c), SOpts: optsFromBits(s), PadC: 3, PadS: 5, EarlyC: c08Payload, EarlyS: c08Payload}
				h.judge(cfg, runHandshake(t, cfg, defaultPolicy), "policy table")
				res.Add("policy_cells", 1)
			}
		}
	}
	// (b) every crypto_provide a client may send, to each of the 64 server policies
	for _, prov := range []uint32{0, 1, 2, 3, 4, 5, 6, 7, 0x80000002, 0x80000001, 0xFFFFFFFF, 0xFFFFFFFC} {
		for s := 0; s < 64; s++ {
			if !mine() {
				continue
			}
			cfg := hsConfig{MSE: true, SOpts: optsFromBits(s), ClientRef: true, RefProvide: prov, PadC: 1, PadS: 1, RefPadC: 2, EarlyC: c08Payload, EarlyS: c08Payload}
			r := runHandshake(t, cfg, defaultPolicy)
			h.judge(cfg, r, "crypto_provide sweep")
			if r.S.OK {
				if r.S.Encrypted && prov&2 == 0 {
					res.Violate("C08/select-not-offered/rc4", fmt.Sprintf("the server selected RC4 although the client offered crypto_provide=%#x  [config %s]", prov, cfg), hsReplay{cfg, nil, "coalesced"})
				}
				if !r.S.Encrypted && prov&1 == 0 {
					res.Violate("C08/select-not-offered/plaintext", fmt.Sprintf("the server selected plaintext although the client offered crypto_provide=%#x  [config %s]", prov, cfg), hsReplay{cfg, nil, "coalesced"})
				}
			}
		}
	}
	// (c) every crypto_select a server may answer, to each of the 64 client policies
	for _, sel := range []uint32{1, 2, 3, 4, 0x80000002, 0xFFFFFFFF} {
		for c := 0; c < 64; c++ {
			if !mine() {
				continue
			}
			cfg := hsConfig{MSE: true, COpts: optsFromBits(c), ServerRef: true, RefSelect: sel, PadC: 1, PadS: 1, RefPadD: 2, EarlyC: c08Payload, EarlyS: c08Payload}
			r := runHandshake(t, cfg, defaultPolicy)
			co := optsFromBits(c)
			if r.C.OK {
				h.res.Add("evaluations", 1)
				offered := uint32(0)
				if !co.ForceEncryption {
					offered |= 1
				}
				if co.AllowEncryption {
					offered |= 2
				}
				if sel != 1 && sel != 2 {
					res.Violate("C08/bad-select-accepted", fmt.Sprintf("the client proceeded although the server answered crypto_select=%#x  [config %s]", sel, cfg), hsReplay{cfg, nil, "coalesced"})
				} else if sel&offered == 0 {
					res.Violate("C08/unoffered-select-accepted", fmt.Sprintf("the client proceeded with method %d which it had not offered (provide=%d)  [config %s]", sel, offered, cfg), hsReplay{cfg, nil, "coalesced"})
				}
				if r.C.Encrypted != (sel == 2) {
					res.Violate("C08/client-mode-mismatch", fmt.Sprintf("crypto_select=%d but the client's connection is encrypted=%v  [config %s]", sel, r.C.Encrypted, cfg), hsReplay{cfg, nil, "coalesced"})
				}
			}
			if sel == 1 || sel == 2 {
				h.judge(cfg, r, "crypto_select sweep")
			}
		}
	}
	// (a') the policy table again with the client's first bytes arriving in a short first
	// segment (1, 5, 19, 20, 21 bytes, or byte by byte): what an end refuses or
	// accepts must not depend on how much of the first message the first read returns
	firstCut := func(k int) policy {
		return func(step int, p point) choice {
			if step == 0 && p.PendC > 0 {
				return choice{0, k}
			}
			return choice{0, 0}
		}
	}
	for c := 0; c < 64; c++ {
		for s := 0; s < 64; s++ {
			if !mine() {
				continue
			}
			so := optsFromBits(s)
			co := optsFromBits(c)
			// the cells in which a refusal is at stake (the others are covered by (a) and by C07)
			if !(so.ForceCryptoHandshake || so.ForceEncryption || !so.AllowCryptoHandshake || co.ForceEncryption) {
				continue
			}
			for _, mse := range []bool{false, true} {
				cfg := hsConfig{MSE: mse, COpts: co, SOpts: so, PadC: 3, PadS: 5, EarlyC: c08Payload, EarlyS: c08Payload}
				for _, k := range []int{1, 5, 19, 20, 21} {
					h.judge(cfg, runHandshake(t, cfg, firstCut(k)), fmt.Sprintf("policy table, first segment of %d bytes", k))
				}
				h.judge(cfg, runHandshake(t, cfg, bytewise(1)), "policy table, client's bytes one at a time")
				res.Add("policy_cells_segmented", 1)
			}
		}
	}
	// (d) key derivation when the Diffie-Hellman secret has leading zero bytes: the
	// specification hashes S as a 96-byte integer.  storrent's private value is
	// fixed by the scripted generator, so its public value is learnt in a probe
	// run and the reference side's private value is then searched for such that
	// S starts with 1 (thorough: also 2) zero bytes.
	allowAll := crypto.Options{AllowCryptoHandshake: true, PreferCryptoHandshake: true, AllowEncryption: true, PreferEncryption: true}
	for _, refIsClient := range []bool{true, false} {
		if !mine() {
			continue
		}
		base := hsConfig{MSE: true, COpts: allowAll, SOpts: allowAll, ClientRef: refIsClient, ServerRef: !refIsClient, RefProvide: 3, PadC: 2, PadS: 4, RefPadC: 1, RefPadD: 1, EarlyC: c08Payload, EarlyS: c08Payload}
		probe := runHandshake(t, base, defaultPolicy)
		h.judge(base, probe, "leading-zero secret: probe")
		if !probe.C.OK || !probe.S.OK || len(probe.RefPeerPub) != 96 {
			res.Violate("C08/interop/probe-failed", fmt.Sprintf("a reference %s and storrent with permissive options did not establish a connection (client err=%q server err=%q)", map[bool]string{true: "client", false: "server"}[refIsClient], probe.C.Err, probe.S.Err), hsReplay{base, nil, "coalesced"})
			continue
		}
		maxZeros := 1
		if vh.Thorough() {
			maxZeros = 2
		}
		for zeros := 1; zeros <= maxZeros; zeros++ {
			var secret []byte
			for i := 0; i < 1<<22 && secret == nil; i++ {
				c := sha1.Sum([]byte(fmt.Sprintf("leading-zero-%d-%d", zeros, i)))
				sh := refmse.Shared(c[:], probe.RefPeerPub)
				nz := 0
				for nz < len(sh) && sh[nz] == 0 {
					nz++
				}
				if nz == zeros {
					secret = c[:]
				}
			}
			if secret == nil {
				res.NotExhaustive("no private value found for a shared secret with leading zero bytes")
				continue
			}
			cfg := base
			cfg.RefSecret = secret
			r := runHandshake(t, cfg, defaultPolicy)
			h.judge(cfg, r, "leading-zero secret")
			res.Add("leading_zero_secrets", 1)
			if len(r.RefS) == 96 && r.RefS[0] != 0 {
				res.NotExhaustive("storrent's public value changed between the probe and the run")
			}
			if !r.C.OK || !r.S.OK {
				res.Violate("C08/interop/leading-zero-secret", fmt.Sprintf("with a Diffie-Hellman secret that starts with %d zero byte(s) a specification-conforming %s and storrent do not interoperate (client err=%q, server err=%q); with another secret they do: S is not hashed as a 96-byte integer",
					zeros, map[bool]string{true: "client", false: "server"}[refIsClient], r.C.Err, r.S.Err), hsReplay{cfg, nil, "coalesced"})
			}
			h.nontriv[fmt.Sprintf("zeroS/%v/%d/%v", refIsClient, zeros, r.C.OK && r.S.OK)] = true
		}
	}
	res.Sample(map[string]any{"client": optString(optsFromBits(9)), "server": optString(optsFromBits(63)), "kind": "mse"})
	res.Sample(map[string]any{"ref client crypto_provide": 0x80000002, "server": optString(optsFromBits(41))})
}
