package crypto

// C08 (part 2): the encrypted stream is transparent for every pattern of write
// and read sizes, and a failing underlying write is reported consistently,
// latched, and never lets the keystream run ahead of the wire.

import (
	"bytes"
	"crypto/rc4"
	"errors"
	"fmt"
	"io"
	"net"
	"os"
	"testing"
	"time"

	"github.com/jech/storrent/zzverif/vh"
)

// memConn is a one-directional in-memory wire with scripted read sizes and
// write faults.
type memConn struct {
	wire      []byte
	rpos      int
	readMax   int
	failAt    int // cumulative byte count at which Write fails (<0 never)
	shortOnly bool
	transient bool // only the one Write call that crosses failAt fails; later calls work again
	tripped   bool
	written   int
	writes    int
	timeout   bool // the failure is a deadline error (os.ErrDeadlineExceeded) rather than a hard one
}

var errInjected = errors.New("injected write failure")

func (m *memConn) Write(p []byte) (int, error) {
	m.writes++
	n := len(p)
	var err error
	if m.failAt >= 0 && m.written+n > m.failAt && !(m.transient && m.tripped) {
		m.tripped = true
		n = m.failAt - m.written
		if n < 0 {
			n = 0
		}
		if !m.shortOnly {
			err = errInjected
			if m.timeout {
				err = os.ErrDeadlineExceeded
			}
		}
	}
	m.wire = append(m.wire, p[:n]...)
	m.written += n
	return n, err
}

func (m *memConn) Read(p []byte) (int, error) {
	if m.rpos >= len(m.wire) {
		return 0, io.EOF
	}
	n := len(p)
	if m.readMax > 0 && n > m.readMax {
		n = m.readMax
	}
	n = copy(p[:n], m.wire[m.rpos:])
	m.rpos += n
	return n, nil
}
func (m *memConn) Close() error                       { return nil }
func (m *memConn) LocalAddr() net.Addr                { return nil }
func (m *memConn) RemoteAddr() net.Addr               { return nil }
func (m *memConn) SetDeadline(t time.Time) error      { return nil }
func (m *memConn) SetReadDeadline(t time.Time) error  { return nil }
func (m *memConn) SetWriteDeadline(t time.Time) error { return nil }

func mkCipher() *rc4.Cipher {
	c, _ := rc4.NewCipher([]byte("0123456789abcdefghij"))
	d := make([]byte, 1024)
	c.XORKeyStream(d, d)
	return c
}

func plain(n int, seed byte) []byte {
	b := make([]byte, n)
	for i := range b {
		b[i] = byte(i*7) ^ seed ^ byte(i>>8)
	}
	return b
}

func TestVerifC08Conn(t *testing.T) {
	if os.Getenv("VERIF_OUT") == "" {
		t.Skip("verif harness: run through /verif/run")
	}
	res := vh.NewResult("C08")
	nontriv := map[string]bool{}
	defer func() {
		res.Add("distinct_nontrivial", int64(len(nontriv)))
		os.Setenv("VERIF_SHARD", fmt.Sprintf("%d/100", 50+shardIndex()))
		if err := res.Write(); err != nil {
			t.Error(err)
		}
	}()
	work := 0
	mine := func() bool { work++; return vh.Mine(work) }
	sizes := []int{0, 1, 100, 32767, 32768, 32769, 65537}
	reads := []int{1, 7, 4096, 100000}
	// transparency: every pattern of <=3 writes x read buffer size x underlying read size
	var pats [][]int
	for _, a := range sizes {
		pats = append(pats, []int{a})
		for _, b := range sizes {
			pats = append(pats, []int{a, b})
			for _, c := range sizes {
				pats = append(pats, []int{a, b, c})
			}
		}
	}
	for _, pat := range pats {
		if !mine() {
			continue
		}
		for _, rs := range reads {
			for _, um := range []int{0, 1, 1000} {
				if rs == 1 && um == 0 && len(pat) == 3 && pat[0]+pat[1]+pat[2] > 70000 {
					continue // byte-sized reads of 200 KB: covered with um=1000
				}
				res.Add("evaluations", 1)
				wire := &memConn{failAt: -1, readMax: um}
				w := &Conn{conn: wire, enc: mkCipher(), dec: mkCipher()}
				var all []byte
				bad := false
				for i, n := range pat {
					p := plain(n, byte(i))
					keep := append([]byte{}, p...)
					k, err := w.Write(p)
					if k != n || err != nil {
						res.Violate("C08/conn/write", fmt.Sprintf("Conn.Write of %d bytes returned %d, %v", n, k, err), map[string]any{"pattern": pat})
						bad = true
					}
					if !bytes.Equal(p, keep) {
						res.Violate("C08/conn/write-clobbers-input", "Conn.Write modified the caller's buffer", map[string]any{"pattern": pat})
					}
					all = append(all, keep...)
				}
				if bad {
					continue
				}
				if len(all) >= 16 && bytes.Contains(wire.wire, all[:16]) {
					res.Violate("C08/conn/plaintext-on-wire", "plaintext visible on the wire of an encrypted connection", map[string]any{"pattern": pat})
				}
				r := &Conn{conn: wire, enc: mkCipher(), dec: mkCipher()}
				var got []byte
				buf := make([]byte, rs)
				for {
					n, err := r.Read(buf)
					got = append(got, buf[:n]...)
					if err != nil {
						break
					}
				}
				if !bytes.Equal(got, all) {
					res.Violate("C08/conn/not-transparent", fmt.Sprintf("receiver got %d bytes, sender wrote %d; first difference at %d (writes %v, read size %d/%d)", len(got), len(all), firstDiff(got, all), pat, rs, um), map[string]any{"pattern": pat, "read": rs, "under": um})
				}
				nontriv[fmt.Sprint(pat, rs, um)] = true
			}
		}
	}
	// write faults: the underlying conn fails / short-writes at position k
	positions := []int{}
	for k := 0; k <= 70; k++ {
		positions = append(positions, k)
	}
	for _, base := range []int{32768, 65536, 98304} {
		for d := -2; d <= 2; d++ {
			positions = append(positions, base+d)
		}
	}
	for _, k := range positions {
		// mode bits: 1 short write instead of an error, 2 transient, 4 the error is a timeout;
		// 8/16/24: between two writes the caller extends the write / both / the read deadline
		for _, mode := range []int{0, 1, 2, 3, 4, 6, 6 + 8, 6 + 16, 6 + 24, 2 + 8, 2 + 16} {
			short := mode&1 != 0
			transient := mode&2 != 0
			for _, pat := range [][]int{{100, 100}, {40000, 10}, {32768, 32768, 5}, {70000, 70000}, {1, 1, 1}, {98304 + 10, 3}} {
				if !mine() {
					continue
				}
				res.Add("evaluations", 1)
				wire := &memConn{failAt: k, shortOnly: short, transient: transient, timeout: mode&4 != 0}
				w := &Conn{conn: wire, enc: mkCipher(), dec: mkCipher()}
				between := func() {
					switch mode & 24 {
					case 8:
						w.SetWriteDeadline(time.Now().Add(time.Minute))
					case 16:
						w.SetDeadline(time.Now().Add(time.Minute))
					case 24:
						w.SetReadDeadline(time.Now().Add(time.Minute))
					}
				}
				var all []byte
				var firstErr error
				acked := 0
				for i, n := range pat {
					p := plain(n, byte(i))
					all = append(all, p...)
					before := wire.written
					if i > 0 {
						between()
					}
					kk, err := w.Write(p)
					if firstErr != nil {
						// every later write must fail with the same error and send nothing
						if err == nil || kk != 0 || wire.written != before {
							res.Violate("C08/conn/error-not-latched", fmt.Sprintf("after a failed write, a later Write returned (%d, %v) and put %d more bytes on the wire (fault at %d, short=%v, transient=%v, writes %v)", kk, err, wire.written-before, k, short, transient, pat),
								map[string]any{"pattern": pat, "fault": k, "short": short})
						}
						continue
					}
					if kk != wire.written-before {
						res.Violate("C08/conn/write-count", fmt.Sprintf("Write reported %d bytes, %d reached the wire (fault at %d, short=%v, writes %v)", kk, wire.written-before, k, short, pat),
							map[string]any{"pattern": pat, "fault": k, "short": short})
					}
					acked += kk
					if err != nil {
						firstErr = err
					} else if kk != n {
						res.Violate("C08/conn/short-write-without-error", fmt.Sprintf("Write returned %d of %d without an error", kk, n), map[string]any{"pattern": pat, "fault": k, "short": short})
					}
				}
				// what reached the wire decrypts to a prefix of the plaintext
				dec := mkCipher()
				got := make([]byte, len(wire.wire))
				dec.XORKeyStream(got, wire.wire)
				if !bytes.Equal(got, all[:len(got)]) {
					res.Violate("C08/conn/keystream-ahead", fmt.Sprintf("the %d bytes on the wire do not decrypt to a prefix of the plaintext: the keystream ran ahead (fault at %d, short=%v, writes %v)", len(got), k, short, pat),
						map[string]any{"pattern": pat, "fault": k, "short": short})
				}
				total := 0
				for _, n := range pat {
					total += n
				}
				if k < total && firstErr == nil {
					res.Violate("C08/conn/fault-swallowed", fmt.Sprintf("the underlying write failed at byte %d but no Write reported an error", k), map[string]any{"pattern": pat, "fault": k, "short": short})
				}
				nontriv[fmt.Sprint("fault", k, mode, pat)] = true
			}
		}
	}
	res.Sample(map[string]any{"writes": []int{32767, 1, 65537}, "read_size": 7})
	res.Sample(map[string]any{"fault_at": 32769, "short_write": true, "writes": []int{40000, 10}})
}

func shardIndex() int {
	i, _ := vh.Shard()
	return i
}

func firstDiff(a, b []byte) int {
	for i := 0; i < len(a) && i < len(b); i++ {
		if a[i] != b[i] {
			return i
		}
	}
	if len(a) < len(b) {
		return len(a)
	}
	return len(b)
}
