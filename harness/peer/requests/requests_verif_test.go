package requests

// C09 (foundation): the per-peer request table.  Every sequence of operations
// up to a depth, over three block indexes and a virtual clock, is executed on
// the real Requests and on a reference model (a list of queued indexes, a list
// of sent requests with their send/cancel times).  After every operation: no
// panic, the same return values and callbacks as the model - in particular
// every request that leaves the table is reported exactly once, which is what
// the torrent's in-flight counters are decremented by -, the membership bitmap
// equals the union of the two lists, and no index is in both.

import (
	"fmt"
	"os"
	"sort"
	"strings"
	"testing"
	"testing/synctest"
	"time"

	"github.com/jech/storrent/zzverif/vh"
)

type mreq struct {
	index     uint32
	rtime     time.Time
	cancelled bool
	ctime     time.Time
}

type model struct {
	queue []uint32
	sent  []mreq
}

func (m *model) has(i uint32) bool {
	for _, q := range m.queue {
		if q == i {
			return true
		}
	}
	for _, s := range m.sent {
		if s.index == i {
			return true
		}
	}
	return false
}

func sortedU(l []uint32) string {
	s := append([]uint32{}, l...)
	sort.Slice(s, func(i, j int) bool { return s[i] < s[j] })
	return fmt.Sprint(s)
}

func TestVerifRequests(t *testing.T) {
	if os.Getenv("VERIF_OUT") == "" && vh.ReplayFile() == "" {
		t.Skip("verif harness: run through /verif/run")
	}
	res := vh.NewResult("C09")
	nontriv := map[string]bool{}
	defer func() {
		res.Add("distinct_outcomes", int64(len(nontriv)))
		vh.ClearCheckpoint("C09")
		if err := res.Write(); err != nil {
			t.Error(err)
		}
	}()
	var ops []string
	for i := 0; i < 3; i++ {
		ops = append(ops, fmt.Sprintf("enqueue:%d", i), fmt.Sprintf("cancel:%d", i), fmt.Sprintf("del:%d", i), fmt.Sprintf("delreq:%d", i))
	}
	ops = append(ops, "send", "dequeue-drop", "clear:queued", "clear:both", "adv:3", "adv:40", "expire")
	depth := 5
	if vh.Thorough() {
		depth = 6
	}
	run := func(seq []string) {
		res.Add("schedules", 1)
		res.Add("request_table_histories", 1)
		rp := map[string]any{"ops": seq}
		vh.CheckpointKey("C09", "C09/requests/crash", rp)
		var trace []string
		viol := func(key, format string, a ...any) {
			if !res.HasViolation(key) {
				res.Violate(key, fmt.Sprintf(format, a...)+fmt.Sprintf("  [request table, operations %v]", seq), rp)
			}
		}
		synctest.Test(t, func(t *testing.T) {
			var rs Requests
			var m model
			for _, op := range seq {
				f := strings.Split(op, ":")
				var idx uint32
				if len(f) > 1 {
					fmt.Sscanf(f[1], "%d", &idx)
				}
				var got, want string
				var pan any
				func() {
					defer func() { pan = recover() }()
					switch f[0] {
					case "enqueue":
						got = fmt.Sprint(rs.Enqueue(idx))
						dup := m.has(idx)
						if !dup {
							m.queue = append(m.queue, idx)
						}
						want = fmt.Sprint(!dup)
					case "send": // what maybeRequest does with the head of the queue
						if len(m.queue) == 0 {
							got, want = "-", "-"
							return
						}
						q, i := rs.Dequeue()
						rs.EnqueueRequest(q)
						// (which queued request comes first is not part of the contract:
						// deletions reorder the queue)
						got, want = "queued", "not queued"
						for k := range m.queue {
							if m.queue[k] == i {
								want = "queued"
								m.queue = append(m.queue[:k], m.queue[k+1:]...)
								break
							}
						}
						m.sent = append(m.sent, mreq{index: i, rtime: time.Now()})
					case "dequeue-drop": // the head of the queue cannot be requested any more and is dropped
						if len(m.queue) == 0 {
							got, want = "-", "-"
							return
						}
						_, i := rs.Dequeue()
						got, want = "queued", "not queued"
						for k := range m.queue {
							if m.queue[k] == i {
								want = "queued"
								m.queue = append(m.queue[:k], m.queue[k+1:]...)
								break
							}
						}
					case "cancel":
						a, b := rs.Cancel(idx)
						got = fmt.Sprint(a, b)
						found, send := false, false
						for k := range m.sent {
							if m.sent[k].index == idx {
								found = true
								if !m.sent[k].cancelled {
									m.sent[k].cancelled, m.sent[k].ctime = true, time.Now()
									send = true
								}
							}
						}
						want = fmt.Sprint(found, send)
					case "del":
						q, r, _ := rs.Del(idx)
						got = fmt.Sprint(q, r)
						wq, wr := false, false
						for k := range m.sent {
							if m.sent[k].index == idx {
								m.sent = append(m.sent[:k], m.sent[k+1:]...)
								wr = true
								break
							}
						}
						if !wr {
							for k := range m.queue {
								if m.queue[k] == idx {
									m.queue = append(m.queue[:k], m.queue[k+1:]...)
									wq = true
									break
								}
							}
						}
						want = fmt.Sprint(wq, wr)
					case "delreq":
						got = fmt.Sprint(rs.DelRequested(idx))
						wr := false
						for k := range m.sent {
							if m.sent[k].index == idx {
								m.sent = append(m.sent[:k], m.sent[k+1:]...)
								wr = true
								break
							}
						}
						want = fmt.Sprint(wr)
					case "clear":
						both := f[1] == "both"
						var cb []uint32
						rs.Clear(both, func(i uint32) { cb = append(cb, i) })
						got = sortedU(cb)
						exp := append([]uint32{}, m.queue...)
						m.queue = nil
						if both {
							for _, s := range m.sent {
								exp = append(exp, s.index)
							}
							m.sent = nil
						}
						want = sortedU(exp)
					case "adv":
						time.Sleep(time.Duration(idx) * time.Second)
						got, want = "", ""
					case "expire": // as peer.expireRequests: sent more than 30 s ago -> cancel; cancelled more than 5 s ago -> drop
						now := time.Now()
						t0, t1 := now.Add(-30*time.Second), now.Add(-5*time.Second)
						var dropped, cancelled []uint32
						d := rs.Expire(t0, t1, func(i uint32) { dropped = append(dropped, i) }, func(i uint32) { cancelled = append(cancelled, i) })
						got = fmt.Sprint(d, sortedU(dropped), sortedU(cancelled))
						var ed, ec []uint32
						var keep []mreq
						for _, s := range m.sent {
							if s.cancelled && s.ctime.Before(t1) {
								ed = append(ed, s.index)
								continue
							}
							if !s.cancelled && s.rtime.Before(t0) {
								s.cancelled, s.ctime = true, now
								ec = append(ec, s.index)
							}
							keep = append(keep, s)
						}
						m.sent = keep
						want = fmt.Sprint(len(ed) > 0, sortedU(ed), sortedU(ec))
					}
				}()
				trace = append(trace, got)
				if pan != nil {
					viol("C09/requests/panic", "%s panicked: %v", op, pan)
					return
				}
				if got != want {
					viol("C09/requests/result/"+f[0], "%s returned / reported %s, the reference model says %s: a request that leaves the table unreported (or is reported twice) leaves the torrent's in-flight count wrong for ever", op, got, want)
					return
				}
				// structure
				var q, s []uint32
				for _, r := range rs.queue {
					q = append(q, r.index)
				}
				for _, r := range rs.requested {
					s = append(s, r.index)
				}
				var ms []uint32
				for _, r := range m.sent {
					ms = append(ms, r.index)
				}
				if fmt.Sprint(q) != fmt.Sprint(append([]uint32{}, m.queue...)) && sortedU(q) != sortedU(m.queue) {
					viol("C09/requests/queue", "after %s the queue holds %v, the model %v", op, q, m.queue)
					return
				}
				if sortedU(s) != sortedU(ms) {
					viol("C09/requests/sent", "after %s the sent list holds %v, the model %v", op, s, ms)
					return
				}
				if rs.Queue() != len(m.queue) || rs.Requested() != len(m.sent) {
					viol("C09/requests/counts", "after %s Queue()=%d Requested()=%d, the model has %d and %d", op, rs.Queue(), rs.Requested(), len(m.queue), len(m.sent))
					return
				}
				for i := 0; i < 4; i++ {
					if rs.bitmap.Get(i) != m.has(uint32(i)) {
						viol("C09/requests/bitmap", "after %s the membership bit of %d is %v but the lists say %v: the next Del/Cancel for it is refused or panics", op, i, rs.bitmap.Get(i), m.has(uint32(i)))
						return
					}
				}
			}
		})
		nontriv[strings.Join(trace, ",")] = true
	}
	if vh.ReplayFile() != "" {
		var rp struct {
			Ops []string `json:"ops"`
		}
		if err := vh.LoadReplay(&rp); err != nil {
			t.Fatal(err)
		}
		run(rp.Ops)
		for _, v := range res.Violations {
			fmt.Printf("RESULT: violation %s: %s\n", v.Key, v.Message)
		}
		if len(res.Violations) == 0 {
			fmt.Println("RESULT: property held on this history")
		}
		return
	}
	work, ran := 0, 0
	expired := false
	defer func() {
		if expired {
			res.NotExhaustive("deadline in the operation-sequence enumeration")
		}
	}()
	var seq []string
	var rec func()
	rec = func() {
		if len(seq) == depth {
			work++
			if vh.Mine(work) {
				ran++
				if ran%4096 == 0 && vh.Expired() {
					expired = true
				}
				if !expired {
					run(seq)
				}
			}
			return
		}
		for _, o := range ops {
			seq = append(seq, o)
			rec()
			seq = seq[:len(seq)-1]
		}
	}
	rec()
	res.Sample(map[string]any{"ops": []string{"enqueue:0", "enqueue:1", "send", "clear:queued", "del:1"}})
}
