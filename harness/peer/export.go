package peer

// Accessors injected by /verif (build-time overlay only, never committed to
// the repository): they only *read* private state of a Peer for the harness
// oracles and canonical state dumps, and reset process-global counters between
// executions.  They must only be called when the peer's goroutine is quiescent
// (after synctest.Wait) or has exited.

import (
	"fmt"
	"sort"
	"strings"
	"sync/atomic"
	"time"

	"github.com/jech/storrent/bitmap"
	"github.com/jech/storrent/pex"
)

// VerifReset puts the package's global state back to its initial value.
func VerifReset() {
	atomic.StoreUint32(&peerCounter, 0)
	atomic.StoreInt32(&numUnchoking, 0)
	UploadEstimator.Init(3 * time.Second)
	UploadEstimator.Start()
	DownloadEstimator.Init(3 * time.Second)
	DownloadEstimator.Start()
}

// VerifNumUnchoking returns the raw counter (may be negative if broken).
func VerifNumUnchoking() int32 { return atomic.LoadInt32(&numUnchoking) }

type VerifPeerState struct {
	Bitmap       bitmap.Bitmap
	MyBitmap     bitmap.Bitmap
	IsSeed       bool
	Unchoked     bool
	Interested   bool
	AmUnchoking  bool
	AmInterested bool
	GotExtended  bool
	Queue        []uint32 // chunks queued, not yet requested
	Requested    []uint32 // chunks requested on the wire
	Cancelled    []uint32 // subset of Requested marked cancelled
	Upload       []Requested
	Fast         []uint32
	ReqQ         int
	Events       int // events parked in peer.events
	WriterLen    int
	HasInfo      bool
	PexPending   []pex.Peer
	PexPendingDel []pex.Peer
	PexSent      []pex.Peer
	Pex          int
	UploadTicker bool
	Exts         [4]uint32
}

// VerifState snapshots the private state of a peer.
func (p *Peer) VerifState() VerifPeerState {
	s := VerifPeerState{
		Bitmap: p.bitmap.Copy(), MyBitmap: p.myBitmap.Copy(), IsSeed: p.isSeed,
		Unchoked: p.unchoked != 0, Interested: p.interested != 0, AmUnchoking: p.amUnchoking != 0,
		AmInterested: p.amInterested, GotExtended: p.gotExtended,
		Upload: append([]Requested{}, p.requested...), Fast: append([]uint32{}, p.fast...),
		ReqQ: p.reqQ, Events: len(p.events), HasInfo: p.Info != nil,
		PexPending: append([]pex.Peer{}, p.pexState.pending...), PexPendingDel: append([]pex.Peer{}, p.pexState.pendingDel...),
		PexSent: append([]pex.Peer{}, p.pexState.sent...), Pex: len(p.pex), UploadTicker: p.uploadTicker != nil,
		Exts: [4]uint32{p.pexExt, p.metadataExt, p.dontHaveExt, p.uploadOnlyExt},
	}
	if p.writer != nil {
		s.WriterLen = len(p.writer)
	}
	// the request queue has no accessor for its contents: parse its String()
	// form "[[q,q,],[r,r,]]"
	str := p.requests.String()
	str = strings.TrimPrefix(str, "[[")
	str = strings.TrimSuffix(str, "]]")
	parts := strings.SplitN(str, "],[", 2)
	parse := func(x string) []uint32 {
		var l []uint32
		for _, f := range strings.Split(x, ",") {
			if f == "" {
				continue
			}
			var v uint32
			fmt.Sscanf(f, "%d", &v)
			l = append(l, v)
		}
		return l
	}
	if len(parts) == 2 {
		s.Queue = parse(parts[0])
		s.Requested = parse(parts[1])
	}
	sort.Slice(s.Queue, func(i, j int) bool { return s.Queue[i] < s.Queue[j] })
	sort.Slice(s.Requested, func(i, j int) bool { return s.Requested[i] < s.Requested[j] })
	return s
}

// VerifParkedEvents returns the events a peer has not managed to hand to its torrent.
func (p *Peer) VerifParkedEvents() []TorEvent { return append([]TorEvent{}, p.events...) }

// VerifHandleMessage and VerifHandleEvent expose the two handlers (used by the
// sequential sweeps that do not need a running peer goroutine).
var VerifPexAdd = func(s *VerifPex, p pex.Peer) { (*pexState)(s).add(p) }

type VerifPex pexState

func (s *VerifPex) Add(p pex.Peer)  { (*pexState)(s).add(p) }
func (s *VerifPex) Del(p pex.Peer)  { (*pexState)(s).del(p) }
func (s *VerifPex) Compute() ([]pex.Peer, []pex.Peer) { return computePex((*pexState)(s)) }
func (s *VerifPex) Unsend(tosend, todel []pex.Peer) {
	st := (*pexState)(s)
	st.pending = append(tosend, st.pending...)
	st.pendingDel = append(todel, st.pendingDel...)
}
func (s *VerifPex) Dump() string {
	st := (*pexState)(s)
	f := func(l []pex.Peer) string {
		var x []string
		for _, p := range l {
			x = append(x, p.Addr.String())
		}
		sort.Strings(x)
		return strings.Join(x, ",")
	}
	return "pending=" + f(st.pending) + " pendingDel=" + f(st.pendingDel) + " sent=" + f(st.sent)
}

// VerifFastLink puts the peer's estimators in the state they are in after a
// few seconds of sustained transfer over a long fat pipe (a large measured
// download rate, a round-trip time of two seconds), so that the delay bound of
// maybeRequest does not bind and only the advertised queue depth limits the
// pipeline.  Call it while the peer is quiescent.
func (p *Peer) VerifFastLink() {
	p.rtt = 2 * time.Second
	p.download.Start()
	p.download.Accumulate(64 << 20)
}
