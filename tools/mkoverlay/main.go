// mkoverlay builds the `go build -overlay` JSON that injects the /verif
// harnesses, shim packages and import rewrites into /repo's *current* working
// tree without modifying it.
//
// usage: mkoverlay -repo /repo -verif /verif -profile <name> -out <file>
package main

import (
	"encoding/json"
	"flag"
	"fmt"
	"go/ast"
	"go/parser"
	"go/token"
	"os"
	"path/filepath"
	"sort"
	"strconv"
	"strings"
)

type rewrite struct {
	File    string            `json:"file"`
	Imports map[string]string `json:"imports"`
	// Selects: rewrite every select statement of the file into a vsel.Select call
	// (the choice among ready arms becomes something a harness can own).
	Selects bool `json:"selects"`
	// Replace: exact one-line source replacements (each must occur exactly once;
	// otherwise it is skipped with a warning - the tree may have been edited).
	Replace []struct {
		Old    string `json:"old"`
		New    string `json:"new"`
		Import string `json:"import"` // shim package the new text needs
	} `json:"replace"`
}

type spec struct {
	// Profiles maps a profile name to the list of import rewrites it applies.
	Profiles map[string][]rewrite `json:"profiles"`
	// Include lets a profile include other profiles.
	Include map[string][]string `json:"include"`
}

const shimPrefix = "github.com/jech/storrent/zzverif/"

var defaultName = map[string]string{
	"math/rand/v2": "rand",
	"sync/atomic":  "atomic",
	"crypto/rand":  "rand",
}

func die(format string, a ...any) {
	fmt.Fprintf(os.Stderr, "mkoverlay: "+format+"\n", a...)
	os.Exit(2)
}

func main() {
	repo := flag.String("repo", "/repo", "repository root")
	verif := flag.String("verif", "/verif", "verif root")
	profile := flag.String("profile", "default", "rewrite profile")
	out := flag.String("out", "", "output overlay file")
	extra := flag.String("extra", "", "optional extra overlay JSON to merge (later wins)")
	flag.Parse()
	if *out == "" {
		die("-out required")
	}
	scratch := filepath.Join(filepath.Dir(*out), "rw-"+*profile)
	os.RemoveAll(scratch)
	if err := os.MkdirAll(scratch, 0o755); err != nil {
		die("%v", err)
	}

	replace := map[string]string{}

	// 1. shim packages: /verif/shim/<name>/*.go -> /repo/zzverif/<name>/*.go
	shimRoot := filepath.Join(*verif, "shim")
	filepath.Walk(shimRoot, func(p string, info os.FileInfo, err error) error {
		if err != nil || info.IsDir() || !strings.HasSuffix(p, ".go") {
			return nil
		}
		rel, _ := filepath.Rel(shimRoot, p)
		replace[filepath.Join(*repo, "zzverif", rel)] = p
		return nil
	})

	// 2. harness files: /verif/harness/<pkg>/<f>.go -> /repo/<pkg>/zz_verif_<f>.go
	harnessRoot := filepath.Join(*verif, "harness")
	filepath.Walk(harnessRoot, func(p string, info os.FileInfo, err error) error {
		if err != nil || info.IsDir() || !strings.HasSuffix(p, ".go") {
			return nil
		}
		rel, _ := filepath.Rel(harnessRoot, p)
		dir, base := filepath.Split(rel)
		replace[filepath.Join(*repo, dir, "zz_verif_"+base)] = p
		return nil
	})

	// 3. import rewrites
	var sp spec
	b, err := os.ReadFile(filepath.Join(*verif, "overlay.spec.json"))
	if err != nil {
		die("%v", err)
	}
	if err := json.Unmarshal(b, &sp); err != nil {
		die("overlay.spec.json: %v", err)
	}
	seen := map[string]bool{}
	var rules []rewrite
	var collect func(name string)
	collect = func(name string) {
		if seen[name] {
			return
		}
		seen[name] = true
		for _, inc := range sp.Include[name] {
			collect(inc)
		}
		rules = append(rules, sp.Profiles[name]...)
	}
	collect(*profile)
	if len(rules) == 0 && *profile != "none" {
		if _, ok := sp.Profiles[*profile]; !ok {
			die("unknown profile %q", *profile)
		}
	}
	merged := map[string]map[string]string{}
	selects := map[string]bool{}
	repls := map[string][]rewrite{}
	var order []string
	for _, r := range rules {
		if merged[r.File] == nil {
			merged[r.File] = map[string]string{}
			order = append(order, r.File)
		}
		for k, v := range r.Imports {
			merged[r.File][k] = v
		}
		if r.Selects {
			selects[r.File] = true
		}
		if len(r.Replace) > 0 {
			repls[r.File] = append(repls[r.File], r)
		}
	}
	for _, f := range order {
		src := filepath.Join(*repo, f)
		data, err := os.ReadFile(src)
		if err != nil {
			fmt.Fprintf(os.Stderr, "mkoverlay: rewrite target missing: %v (skipped)\n", err)
			continue
		}
		outData, n, err := rewriteImports(src, data, merged[f])
		if err != nil {
			die("%s: %v", f, err)
		}
		for _, rr := range repls[f] {
			for _, e := range rr.Replace {
				if c := strings.Count(string(outData), e.Old); c != 1 {
					fmt.Fprintf(os.Stderr, "mkoverlay: %s: %q occurs %d times, replacement skipped\n", f, e.Old, c)
					continue
				}
				outData = []byte(strings.Replace(string(outData), e.Old, e.New, 1))
				if e.Import != "" {
					var err error
					outData, err = addImport(f, outData, e.Import)
					if err != nil {
						die("%s: %v", f, err)
					}
				}
				n++
			}
		}
		if selects[f] {
			var ns int
			outData, ns, err = rewriteSelects(f, outData)
			if err != nil {
				die("%s: %v", f, err)
			}
			n += ns
		}
		if n == 0 {
			fmt.Fprintf(os.Stderr, "mkoverlay: %s: no listed import present (skipped)\n", f)
			continue
		}
		dst := filepath.Join(scratch, strings.ReplaceAll(f, "/", "__"))
		if err := os.WriteFile(dst, outData, 0o644); err != nil {
			die("%v", err)
		}
		replace[src] = dst
	}

	if *extra != "" {
		var ex struct{ Replace map[string]string }
		b, err := os.ReadFile(*extra)
		if err != nil {
			die("%v", err)
		}
		if err := json.Unmarshal(b, &ex); err != nil {
			die("%s: %v", *extra, err)
		}
		for k, v := range ex.Replace {
			replace[k] = v
		}
	}

	keys := make([]string, 0, len(replace))
	for k := range replace {
		keys = append(keys, k)
	}
	sort.Strings(keys)
	ordered := map[string]string{}
	for _, k := range keys {
		ordered[k] = replace[k]
	}
	ob, _ := json.MarshalIndent(map[string]any{"Replace": ordered}, "", " ")
	if err := os.WriteFile(*out, ob, 0o644); err != nil {
		die("%v", err)
	}
}

// rewriteImports replaces the path of the listed imports in the file, keeping
// every other byte (and all line numbers) identical.
func rewriteImports(name string, data []byte, m map[string]string) ([]byte, int, error) {
	fset := token.NewFileSet()
	f, err := parser.ParseFile(fset, name, data, parser.ImportsOnly)
	if err != nil {
		return nil, 0, err
	}
	type edit struct {
		start, end int
		text       string
	}
	var edits []edit
	for _, im := range f.Imports {
		p, _ := strconv.Unquote(im.Path.Value)
		to, ok := m[p]
		if !ok {
			continue
		}
		if !strings.Contains(to, "/") {
			to = shimPrefix + to
		}
		start := fset.Position(im.Pos()).Offset
		end := fset.Position(im.End()).Offset
		alias := ""
		if im.Name != nil {
			alias = im.Name.Name
		} else if n, ok := defaultName[p]; ok {
			alias = n
		} else {
			alias = p[strings.LastIndex(p, "/")+1:]
		}
		edits = append(edits, edit{start, end, alias + " " + strconv.Quote(to)})
	}
	sort.Slice(edits, func(i, j int) bool { return edits[i].start > edits[j].start })
	out := append([]byte{}, data...)
	for _, e := range edits {
		out = append(out[:e.start], append([]byte(e.text), out[e.end:]...)...)
	}
	return out, len(edits), nil
}

// rewriteSelects turns every select statement into a switch over vsel.Select,
// by byte edits that keep every line where it was:
//
//	select {                      { c0 := vsel.RecvCase(ch); c1 := vsel.SendCase(out, v); switch vsel.Select("f.go:12", false, c0, c1) {
//	case x, ok := <-ch:    =>     case 0: x, ok := c0.Val2();
//	case out <- v:                case 1:
//	}                             }}
//
// Channel and value expressions are evaluated once, in source order, on entry,
// as the language specifies for select.
func rewriteSelects(name string, data []byte) ([]byte, int, error) {
	fset := token.NewFileSet()
	f, err := parser.ParseFile(fset, name, data, parser.ParseComments)
	if err != nil {
		return nil, 0, err
	}
	off := func(p token.Pos) int { return fset.Position(p).Offset }
	text := func(n ast.Node) string { return string(data[off(n.Pos()):off(n.End())]) }
	type edit struct {
		start, end int
		text       string
	}
	var edits []edit
	count := 0
	var bad error
	skip := map[*ast.SelectStmt]bool{}
	ast.Inspect(f, func(n ast.Node) bool {
		if ls, ok := n.(*ast.LabeledStmt); ok {
			if ss, ok := ls.Stmt.(*ast.SelectStmt); ok {
				// a labelled select cannot be wrapped in a block (break L must still
				// refer to it): it is left as it is
				skip[ss] = true
				fmt.Fprintf(os.Stderr, "mkoverlay: %s: labelled select statement left unrewritten\n", fset.Position(ls.Pos()))
			}
		}
		sel, ok := n.(*ast.SelectStmt)
		if !ok {
			return true
		}
		if skip[sel] {
			return true
		}
		count++
		id := fmt.Sprintf("__vs%d_", off(sel.Pos()))
		var setup []string
		var names []string
		hasDefault := false
		k := 0
		for _, st := range sel.Body.List {
			cc := st.(*ast.CommClause)
			hdrStart, hdrEnd := off(cc.Pos()), off(cc.Colon)+1
			if cc.Comm == nil {
				hasDefault = true
				edits = append(edits, edit{hdrStart, hdrEnd, "case -1:"})
				continue
			}
			v := fmt.Sprintf("%s%d", id, k)
			names = append(names, v)
			hdr := fmt.Sprintf("case %d:", k)
			switch c := cc.Comm.(type) {
			case *ast.SendStmt:
				setup = append(setup, fmt.Sprintf("%s := vsel.SendCase(%s, %s)", v, text(c.Chan), text(c.Value)))
			case *ast.ExprStmt: // <-ch
				u := c.X.(*ast.UnaryExpr)
				setup = append(setup, fmt.Sprintf("%s := vsel.RecvCase(%s)", v, text(u.X)))
			case *ast.AssignStmt: // x := <-ch   x, ok := <-ch   (or =)
				u := c.Rhs[0].(*ast.UnaryExpr)
				setup = append(setup, fmt.Sprintf("%s := vsel.RecvCase(%s)", v, text(u.X)))
				var lhs []string
				for _, l := range c.Lhs {
					lhs = append(lhs, text(l))
				}
				get := "Val()"
				if len(lhs) == 2 {
					get = "Val2()"
				}
				hdr += fmt.Sprintf(" %s %s %s.%s;", strings.Join(lhs, ", "), c.Tok.String(), v, get)
			default:
				bad = fmt.Errorf("%s: unexpected comm clause", fset.Position(cc.Pos()))
			}
			edits = append(edits, edit{hdrStart, hdrEnd, hdr})
			k++
		}
		pos := fset.Position(sel.Pos())
		head := "{ " + strings.Join(setup, "; ")
		if len(setup) > 0 {
			head += "; "
		}
		head += fmt.Sprintf("switch vsel.Select(%q, %v", fmt.Sprintf("%s:%d", filepath.Base(name), pos.Line), hasDefault)
		for _, nm := range names {
			head += ", " + nm
		}
		head += ") {"
		edits = append(edits, edit{off(sel.Pos()), off(sel.Body.Lbrace) + 1, head})
		// (the default arm keeps a select whose arms all return a terminating statement)
		edits = append(edits, edit{off(sel.Body.Rbrace), off(sel.Body.Rbrace) + 1, "default: panic(\"vsel: no such arm\") }}"})
		return true
	})
	if bad != nil {
		return nil, 0, bad
	}
	if count == 0 {
		return data, 0, nil
	}
	// the import: appended to the first import declaration's line
	var imp *ast.GenDecl
	for _, d := range f.Decls {
		if g, ok := d.(*ast.GenDecl); ok && g.Tok == token.IMPORT {
			imp = g
			break
		}
	}
	if imp == nil {
		return nil, 0, fmt.Errorf("%s: no import declaration", name)
	}
	if imp.Lparen.IsValid() {
		edits = append(edits, edit{off(imp.Lparen) + 1, off(imp.Lparen) + 1, "vsel " + strconv.Quote(shimPrefix+"vsel") + ";"})
	} else {
		edits = append(edits, edit{off(imp.Pos()), off(imp.Pos()), "import vsel " + strconv.Quote(shimPrefix+"vsel") + ";"})
	}
	sort.Slice(edits, func(i, j int) bool { return edits[i].start > edits[j].start })
	out := append([]byte{}, data...)
	for _, e := range edits {
		out = append(out[:e.start], append([]byte(e.text), out[e.end:]...)...)
	}
	return out, count, nil
}

// addImport adds an import of a shim package (named after its last element) on
// the line of the first import declaration, unless it is there already.
func addImport(name string, data []byte, pkg string) ([]byte, error) {
	full := shimPrefix + pkg
	if strings.Contains(string(data), strconv.Quote(full)) {
		return data, nil
	}
	fset := token.NewFileSet()
	f, err := parser.ParseFile(fset, name, data, parser.ImportsOnly)
	if err != nil {
		return nil, err
	}
	for _, d := range f.Decls {
		if g, ok := d.(*ast.GenDecl); ok && g.Tok == token.IMPORT {
			var at int
			var text string
			if g.Lparen.IsValid() {
				at = fset.Position(g.Lparen).Offset + 1
				text = pkg + " " + strconv.Quote(full) + ";"
			} else {
				at = fset.Position(g.Pos()).Offset
				text = "import " + pkg + " " + strconv.Quote(full) + ";"
			}
			out := append([]byte{}, data[:at]...)
			out = append(out, text...)
			return append(out, data[at:]...), nil
		}
	}
	return nil, fmt.Errorf("no import declaration")
}
