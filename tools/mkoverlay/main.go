// mkoverlay builds the `go build -overlay` JSON that injects the /verif
// harnesses, shim packages and import rewrites into /repo's *current* working
// tree without modifying it.
//
// usage: mkoverlay -repo /repo -verif /verif -profile <name> -out <file>
package main

import (
	"encoding/json"
	"flag"
	"fmt"
	"go/parser"
	"go/token"
	"os"
	"path/filepath"
	"sort"
	"strconv"
	"strings"
)

type rewrite struct {
	File    string            `json:"file"`
	Imports map[string]string `json:"imports"`
}

type spec struct {
	// Profiles maps a profile name to the list of import rewrites it applies.
	Profiles map[string][]rewrite `json:"profiles"`
	// Include lets a profile include other profiles.
	Include map[string][]string `json:"include"`
}

const shimPrefix = "github.com/jech/storrent/zzverif/"

var defaultName = map[string]string{
	"math/rand/v2": "rand",
	"sync/atomic":  "atomic",
	"crypto/rand":  "rand",
}

func die(format string, a ...any) {
	fmt.Fprintf(os.Stderr, "mkoverlay: "+format+"\n", a...)
	os.Exit(2)
}

func main() {
	repo := flag.String("repo", "/repo", "repository root")
	verif := flag.String("verif", "/verif", "verif root")
	profile := flag.String("profile", "default", "rewrite profile")
	out := flag.String("out", "", "output overlay file")
	extra := flag.String("extra", "", "optional extra overlay JSON to merge (later wins)")
	flag.Parse()
	if *out == "" {
		die("-out required")
	}
	scratch := filepath.Join(filepath.Dir(*out), "rw-"+*profile)
	os.RemoveAll(scratch)
	if err := os.MkdirAll(scratch, 0o755); err != nil {
		die("%v", err)
	}

	replace := map[string]string{}

	// 1. shim packages: /verif/shim/<name>/*.go -> /repo/zzverif/<name>/*.go
	shimRoot := filepath.Join(*verif, "shim")
	filepath.Walk(shimRoot, func(p string, info os.FileInfo, err error) error {
		if err != nil || info.IsDir() || !strings.HasSuffix(p, ".go") {
			return nil
		}
		rel, _ := filepath.Rel(shimRoot, p)
		replace[filepath.Join(*repo, "zzverif", rel)] = p
		return nil
	})

	// 2. harness files: /verif/harness/<pkg>/<f>.go -> /repo/<pkg>/zz_verif_<f>.go
	harnessRoot := filepath.Join(*verif, "harness")
	filepath.Walk(harnessRoot, func(p string, info os.FileInfo, err error) error {
		if err != nil || info.IsDir() || !strings.HasSuffix(p, ".go") {
			return nil
		}
		rel, _ := filepath.Rel(harnessRoot, p)
		dir, base := filepath.Split(rel)
		replace[filepath.Join(*repo, dir, "zz_verif_"+base)] = p
		return nil
	})

	// 3. import rewrites
	var sp spec
	b, err := os.ReadFile(filepath.Join(*verif, "overlay.spec.json"))
	if err != nil {
		die("%v", err)
	}
	if err := json.Unmarshal(b, &sp); err != nil {
		die("overlay.spec.json: %v", err)
	}
	seen := map[string]bool{}
	var rules []rewrite
	var collect func(name string)
	collect = func(name string) {
		if seen[name] {
			return
		}
		seen[name] = true
		for _, inc := range sp.Include[name] {
			collect(inc)
		}
		rules = append(rules, sp.Profiles[name]...)
	}
	collect(*profile)
	if len(rules) == 0 && *profile != "none" {
		if _, ok := sp.Profiles[*profile]; !ok {
			die("unknown profile %q", *profile)
		}
	}
	merged := map[string]map[string]string{}
	var order []string
	for _, r := range rules {
		if merged[r.File] == nil {
			merged[r.File] = map[string]string{}
			order = append(order, r.File)
		}
		for k, v := range r.Imports {
			merged[r.File][k] = v
		}
	}
	for _, f := range order {
		src := filepath.Join(*repo, f)
		data, err := os.ReadFile(src)
		if err != nil {
			fmt.Fprintf(os.Stderr, "mkoverlay: rewrite target missing: %v (skipped)\n", err)
			continue
		}
		outData, n, err := rewriteImports(src, data, merged[f])
		if err != nil {
			die("%s: %v", f, err)
		}
		if n == 0 {
			fmt.Fprintf(os.Stderr, "mkoverlay: %s: no listed import present (skipped)\n", f)
			continue
		}
		dst := filepath.Join(scratch, strings.ReplaceAll(f, "/", "__"))
		if err := os.WriteFile(dst, outData, 0o644); err != nil {
			die("%v", err)
		}
		replace[src] = dst
	}

	if *extra != "" {
		var ex struct{ Replace map[string]string }
		b, err := os.ReadFile(*extra)
		if err != nil {
			die("%v", err)
		}
		if err := json.Unmarshal(b, &ex); err != nil {
			die("%s: %v", *extra, err)
		}
		for k, v := range ex.Replace {
			replace[k] = v
		}
	}

	keys := make([]string, 0, len(replace))
	for k := range replace {
		keys = append(keys, k)
	}
	sort.Strings(keys)
	ordered := map[string]string{}
	for _, k := range keys {
		ordered[k] = replace[k]
	}
	ob, _ := json.MarshalIndent(map[string]any{"Replace": ordered}, "", " ")
	if err := os.WriteFile(*out, ob, 0o644); err != nil {
		die("%v", err)
	}
}

// rewriteImports replaces the path of the listed imports in the file, keeping
// every other byte (and all line numbers) identical.
func rewriteImports(name string, data []byte, m map[string]string) ([]byte, int, error) {
	fset := token.NewFileSet()
	f, err := parser.ParseFile(fset, name, data, parser.ImportsOnly)
	if err != nil {
		return nil, 0, err
	}
	type edit struct {
		start, end int
		text       string
	}
	var edits []edit
	for _, im := range f.Imports {
		p, _ := strconv.Unquote(im.Path.Value)
		to, ok := m[p]
		if !ok {
			continue
		}
		if !strings.Contains(to, "/") {
			to = shimPrefix + to
		}
		start := fset.Position(im.Pos()).Offset
		end := fset.Position(im.End()).Offset
		alias := ""
		if im.Name != nil {
			alias = im.Name.Name
		} else if n, ok := defaultName[p]; ok {
			alias = n
		} else {
			alias = p[strings.LastIndex(p, "/")+1:]
		}
		edits = append(edits, edit{start, end, alias + " " + strconv.Quote(to)})
	}
	sort.Slice(edits, func(i, j int) bool { return edits[i].start > edits[j].start })
	out := append([]byte{}, data...)
	for _, e := range edits {
		out = append(out[:e.start], append([]byte(e.text), out[e.end:]...)...)
	}
	return out, len(edits), nil
}
