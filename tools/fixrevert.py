#!/usr/bin/env python3
"""Second demonstration of detection: revert each `fix:` commit of the
repository (in a scratch copy given by --repo) and run the check of the property
it was found by; the check must report the violation again.  Results go to
fixrevert.json."""
import json, os, re, subprocess, sys
V = os.path.dirname(os.path.dirname(os.path.abspath(__file__)))
repo = sys.argv[sys.argv.index("--repo") + 1]
fixed = []
for line in open(os.path.join(V, "known_findings.txt")):
    m = re.match(r"fixed: property=(\S+) (\S+) (.*)", line.strip())
    if m:
        fixed.append(m.groups())
env = dict(os.environ, VERIF_REPO=repo)
out = []
for prop, h, desc in fixed:
    subprocess.run(["git", "-C", repo, "reset", "-q", "--hard"])
    r = subprocess.run(["git", "-C", repo, "revert", "-n", h], capture_output=True, text=True)
    if r.returncode != 0:
        subprocess.run(["git", "-C", repo, "revert", "--abort"], capture_output=True)
        subprocess.run(["git", "-C", repo, "reset", "-q", "--hard"])
        res = {"commit": h, "property": prop, "reverted": False, "why": "revert conflicts with a later fix"}
    else:
        b = subprocess.run("go build ./...", shell=True, cwd=repo, capture_output=True)
        rr = subprocess.run([os.path.join(V, "run"), prop, "quick"], cwd=V, env=env, capture_output=True, text=True)
        keys = sorted(set(k.rstrip(":") for k in re.findall(r"^violation key=(\S+?):? ", rr.stdout, re.M)))
        res = {"commit": h, "property": prop, "reverted": True, "builds": b.returncode == 0, "exit": rr.returncode, "detected": rr.returncode == 1, "violation_keys": keys[:6], "what": desc[:160]}
        subprocess.run(["git", "-C", repo, "reset", "-q", "--hard"])
    subprocess.run(["git", "-C", V, "checkout", "--", "evidence/%s.json" % prop], capture_output=True)
    subprocess.run("rm -f %s/replays/%s-*.json" % (V, prop), shell=True)
    print(json.dumps(res)); sys.stdout.flush()
    out.append(res)
json.dump(out, open(os.path.join(V, "fixrevert.json"), "w"), indent=1)
print("re-detected %d of %d reverted fixes" % (sum(1 for r in out if r.get("detected")), sum(1 for r in out if r.get("reverted"))))
