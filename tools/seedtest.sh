#!/bin/bash
# usage: tools/seedtest.sh <ID> <patch.diff> [tier]   -- apply a seeded change to /repo, run the check, undo it
ID=$1; PATCH=$2; TIER=${3:-quick}
cd /repo || exit 3
if [ -n "$(git status --porcelain)" ]; then echo "seedtest: /repo not clean"; exit 3; fi
if ! git apply --3way "$PATCH" 2>/tmp/seedtest.err && ! patch -p1 -s --fuzz=3 < "$PATCH"; then
  echo "seedtest: patch does not apply"; cat /tmp/seedtest.err; git checkout -- .; git clean -fdq; exit 3
fi
git reset -q
cd /verif
./run $ID $TIER > /tmp/seedtest.$ID.out 2>&1
rc=$?
grep -E "^(VIOLATION|KNOWN-FINDING|violation key|C[0-9]+ (quick|thorough):|run:)" /tmp/seedtest.$ID.out | cut -c1-400
echo "seedtest: exit=$rc"
git -C /repo checkout -- . ; git -C /repo clean -fdq
# the evidence file was rewritten by a run against a modified tree: restore the committed one
git -C /verif checkout -- evidence/$ID.json 2>/dev/null
# replays from seeded runs are not kept
git -C /verif clean -fdq replays/ 2>/dev/null
exit $rc
