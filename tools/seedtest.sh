#!/bin/bash
# usage: tools/seedtest.sh <ID> <patch.diff> [tier]
# Applies a seeded change, runs the check, undoes the change.  By default the
# change is applied to a scratch worktree of /repo's HEAD (so that background
# runs against /repo are not disturbed); SEED_INPLACE=1 applies it to /repo itself.
ID=$1; PATCH=$2; TIER=${3:-quick}
if [ -n "$SEED_INPLACE" ]; then
  R=/repo
  cd /repo || exit 3
  if [ -n "$(git status --porcelain)" ]; then echo "seedtest: /repo not clean"; exit 3; fi
else
  R=/tmp/seedwt.$$
  git -C /repo worktree add -q --detach $R HEAD || exit 3
  cd $R || exit 3
fi
cleanup() {
  if [ -n "$SEED_INPLACE" ]; then
    git -C /repo checkout -- . ; git -C /repo clean -fdq
  else
    cd /verif; git -C /repo worktree remove --force $R; git -C /repo worktree prune
  fi
}
if ! git apply --3way "$PATCH" 2>/tmp/seedtest.err && ! patch -p1 -s --fuzz=3 < "$PATCH"; then
  echo "seedtest: patch does not apply"; cat /tmp/seedtest.err; cleanup; exit 3
fi
git reset -q
cd /verif
VERIF_BUILD=/verif/.build/alt-seed-$$ VERIF_REPO=$R ./run $ID $TIER > /tmp/seedtest.$ID.$$.out 2>&1
rc=$?
grep -E "^(VIOLATION|KNOWN-FINDING|violation key|C[0-9]+ (quick|thorough):|run:)" /tmp/seedtest.$ID.$$.out | cut -c1-400
echo "seedtest: exit=$rc"
rm -f /tmp/seedtest.$ID.$$.out
rm -rf /verif/.build/alt-seed-$$
cleanup
# the evidence file was rewritten by a run against a modified tree: restore the committed one
git -C /verif checkout -- evidence/$ID.json 2>/dev/null
# replays from seeded runs are not kept
git -C /verif clean -fdq replays/ 2>/dev/null
exit $rc
