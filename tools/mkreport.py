#!/usr/bin/env python3
"""Regenerate the tables of DESIGN.md section 9 (between the AUTO markers) from
checks.json, evidence/, known_findings.txt and seeded/."""
import json, os, glob, re, subprocess
V = os.path.dirname(os.path.dirname(os.path.abspath(__file__)))
checks = json.load(open(os.path.join(V, "checks.json")))["checks"]
checks.sort(key=lambda c: c["id"])
out = []
out.append("### 9.1 What each check explores (counts from the committed quick-tier evidence)\n")
out.append("| id | engine | jobs (package: test) | states / evaluations | transitions / schedules | exhaustive | wall s |")
out.append("|---|---|---|---|---|---|---|")
for c in checks:
    ev = {}
    p = os.path.join(V, "evidence", c["id"] + ".json")
    if os.path.exists(p):
        ev = json.load(open(p))
    cov = ev.get("coverage", {})
    jobs = "; ".join("%s: %s%s" % (j["pkg"], j["test"].replace("TestVerif", ""), " (thorough only)" if j.get("thorough_only") else "") for j in c["jobs"])
    a = cov.get("states") or cov.get("evaluations") or 0
    b = cov.get("transitions") or cov.get("schedules") or cov.get("evaluations") or 0
    out.append("| %s | %s | %s | %s | %s | %s | %s |" % (c["id"], c.get("engine", ""), jobs, a, b, cov.get("exhaustive"), ev.get("wall_s")))
out.append("")
fixed, known = [], []
for line in open(os.path.join(V, "known_findings.txt")):
    line = line.strip()
    if line.startswith("fixed:"):
        m = re.match(r"fixed: property=(\S+) (\S+) (.*)", line)
        if m: fixed.append(m.groups())
    elif line.startswith("known:"):
        m = re.match(r"known: property=(\S+) key=(\S+) (.*)", line)
        if m: known.append(m.groups())
out.append("### 9.3 Genuine defects found by the checks and repaired (one `fix:` commit each in /repo)\n")
out.append("Each was first reported by the named check on the then-current tree with a replayable artefact, re-executed, repaired by a minimal unguarded commit, and the check re-run (passes, no KNOWN-FINDING line); the pinned suite passes after every commit.\n")
out.append("| property | commit | what failed |")
out.append("|---|---|---|")
for p, h, d in fixed:
    subj = ""
    try:
        subj = subprocess.run(["git", "-C", "/repo", "log", "--format=%s", "-1", h], capture_output=True, text=True).stdout.strip()
    except Exception:
        pass
    out.append("| %s | `%s` %s | %s |" % (p, h, subj.replace("|", "/"), d.replace("|", "/")))
out.append("")
out.append("### 9.4 Known findings (genuine, recorded, not repaired)\n")
out.append("| property | key | what fails and why it is not repaired |")
out.append("|---|---|---|")
for p, k, d in known:
    out.append("| %s | `%s` | %s |" % (p, k, d.replace("|", "/")))
out.append("")
out.append("### 9.5 Seeded changes (written by independent sub-agents from the property text alone) and the checks that catch them\n")
out.append("Every change compiles and passes the pinned suite; its demonstration fails with it and passes without it (verified in a scratch worktree, `seeded/<name>/verified.json`).  `detected` is the result of applying the patch to a copy of the repository and running the named check's quick command (`seeded/<name>/detection.json`).\n")
out.append("| seed | what was changed | check | detected | violation keys / note |")
out.append("|---|---|---|---|---|")
nd = 0
tot = 0
for d in sorted(os.path.dirname(x) for x in glob.glob(os.path.join(V, "seeded", "C*", "meta.json"))):
    n = os.path.basename(d)
    meta = json.load(open(os.path.join(d, "meta.json")))
    det = {}
    if os.path.exists(os.path.join(d, "detection.json")):
        det = json.load(open(os.path.join(d, "detection.json")))
    tot += 1
    if det.get("detected"): nd += 1
    note = ", ".join(det.get("violation_keys", [])[:3])
    if meta.get("verif_note"):
        note = (note + " — " if note else "") + meta["verif_note"]
    out.append("| %s | %s | %s | %s | %s |" % (n, str(meta.get("summary", "")).replace("|", "/")[:230], det.get("property", meta.get("detect_with") or meta["property"]), "yes" if det.get("detected") else "NO", note.replace("|", "/")))
out.append("")
out.append("Detected: %d of %d.\n" % (nd, tot))
fr = os.path.join(V, "fixrevert.json")
if os.path.exists(fr):
    rows = json.load(open(fr))
    out.append("### 9.7 Every repaired defect is re-detected when its repair is reverted (`tools/fixrevert.py`, `fixrevert.json`)\n")
    out.append("Each `fix:` commit is reverted on its own in a scratch copy of the repository (all later repairs stay) and the property's quick check is run.\n")
    out.append("| commit | property | exit | violation keys |")
    out.append("|---|---|---|---|")
    for r in rows:
        out.append("| `%s` | %s | %s | %s |" % (r["commit"], r["property"], r.get("exit"), ", ".join(r.get("violation_keys", [])[:3]) or ("NOT DETECTED" if not r.get("detected") else "")))
    out.append("")
    out.append("Re-detected: %d of %d.\n" % (sum(1 for r in rows if r.get("detected")), len(rows)))
txt = open(os.path.join(V, "DESIGN.md")).read()
a, b = "<!-- AUTO:BEGIN -->", "<!-- AUTO:END -->"
if a in txt:
    txt = txt[:txt.index(a) + len(a)] + "\n" + "\n".join(out) + "\n" + txt[txt.index(b):]
    open(os.path.join(V, "DESIGN.md"), "w").write(txt)
    print("DESIGN.md tables regenerated: %d fixed, %d known, %d/%d seeds detected" % (len(fixed), len(known), nd, tot))
else:
    print("markers not found")
