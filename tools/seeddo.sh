#!/bin/bash
# usage: tools/seeddo.sh <ID> <round tag, e.g. r6m2> [scratch dir, default /tmp/s6-<ID>/m1]
# Verifies a sub-agent's seeded change (tools/seedverify.sh), archives it as
# seeded/<ID>-<tag>/ and runs the property's quick check against it (tools/seedtest.sh).
ID=$1; TAG=$2; M=${3:-/tmp/s6-$ID/m1}
export GOFLAGS=-mod=mod GOPROXY=off GOSUMDB=off GOTOOLCHAIN=local
cd /verif
git -C /repo worktree remove --force /tmp/w6-$ID 2>/dev/null
tools/seedverify.sh $ID $M 2>&1 | tail -1
D=/verif/seeded/$ID-$TAG
mkdir -p $D
cp $M/patch.diff $M/meta.json $M/verified.json $D/
cp $M/demo_test.go $D/demo_test.go.txt
tools/seedtest.sh $ID $D/patch.diff quick 2>&1 | tail -12
