#!/usr/bin/env python3
"""Run every archived seeded change against the check of the property it breaks.

usage: tools/seedrun.py [--repo DIR] [--tier quick] [names...]
Applies seeded/<name>/patch.diff to the repository (a scratch copy when --repo is
given, /repo otherwise), runs ./run <property> <tier> with VERIF_REPO pointing at
it, records exit status and violation keys in seeded/<name>/detection.json and
undoes the patch.  Evidence files written during these runs are restored."""
import json, os, subprocess, sys, glob, re
V = os.path.dirname(os.path.dirname(os.path.abspath(__file__)))
args = sys.argv[1:]
repo = "/repo"
tier = "quick"
names = []
while args:
    a = args.pop(0)
    if a == "--repo": repo = args.pop(0)
    elif a == "--tier": tier = args.pop(0)
    else: names.append(a)
if not names:
    names = sorted(os.path.basename(os.path.dirname(d)) for d in glob.glob(os.path.join(V, "seeded", "C*", "meta.json")))
env = dict(os.environ, VERIF_REPO=repo)
out = []
for n in names:
    d = os.path.join(V, "seeded", n)
    meta = json.load(open(os.path.join(d, "meta.json")))
    prop = meta.get("detect_with") or meta["property"]
    st = subprocess.run(["git", "-C", repo, "status", "--porcelain"], capture_output=True, text=True).stdout.strip()
    if st:
        print("seedrun: repository not clean, stopping"); sys.exit(3)
    ok = subprocess.run(["git", "-C", repo, "apply", "--3way", os.path.join(d, "patch.diff")], capture_output=True).returncode == 0
    subprocess.run(["git", "-C", repo, "reset", "-q"])
    if not ok:
        subprocess.run(["git", "-C", repo, "checkout", "--", "."])
        ok = subprocess.run("patch -p1 -s --fuzz=3 < %s" % os.path.join(d, "patch.diff"), shell=True, cwd=repo).returncode == 0
    if not ok:
        subprocess.run(["git", "-C", repo, "checkout", "--", "."]); subprocess.run(["git", "-C", repo, "clean", "-fdq"])
        res = {"name": n, "property": prop, "applied": False}
    else:
        r = subprocess.run([os.path.join(V, "run"), prop, tier], cwd=V, env=env, capture_output=True, text=True)
        keys = re.findall(r"^violation key=(\S+?):? ", r.stdout, re.M)
        res = {"name": n, "property": prop, "applied": True, "tier": tier, "exit": r.returncode, "detected": r.returncode == 1,
               "violation_keys": sorted(set(k.rstrip(':') for k in keys))[:8]}
        subprocess.run(["git", "-C", repo, "checkout", "--", "."]); subprocess.run(["git", "-C", repo, "clean", "-fdq"])
    json.dump(res, open(os.path.join(d, "detection.json"), "w"), indent=1)
    subprocess.run(["git", "-C", V, "checkout", "--", "evidence/%s.json" % prop], capture_output=True)
    subprocess.run("rm -f %s/replays/%s-*.json" % (V, prop), shell=True)
    print(json.dumps(res)); sys.stdout.flush()
    out.append(res)
print("detected %d of %d" % (sum(1 for r in out if r.get("detected")), len(out)))
