#!/bin/bash
# usage: tools/seedverify.sh <ID> <mutant dir>
# Confirms, in a scratch worktree of /repo's HEAD, that a seeded change compiles, passes the existing
# suite, and that its demonstration fails with the change and passes without it.  Writes <mutant dir>/verified.json.
ID=$1; M=$2
export GOFLAGS=-mod=mod GOPROXY=off GOSUMDB=off GOTOOLCHAIN=local
WT=/tmp/sv-$ID-$(basename $M)-$$
git -C /repo worktree add -q --detach $WT HEAD || exit 3
cleanup() { git -C /repo worktree remove --force $WT; }
trap cleanup EXIT
cd $WT
applies=false; builds=false; suite=false; demo_with=unknown; demo_without=unknown
if git apply --3way $M/patch.diff 2>/dev/null || patch -p1 -s --fuzz=3 < $M/patch.diff; then applies=true; fi
git reset -q
git diff > /tmp/sv-$$.diff
if $applies && go build ./... 2>/dev/null; then builds=true; fi
if $builds && go test -vet=off -count=1 ./... > /tmp/sv-$$.suite 2>&1; then suite=true; fi
demo=$(ls $M/*_test.go 2>/dev/null | head -1)
if [ -n "$demo" ]; then
  dir=$(grep -m1 -oiE "copy (in)?to [a-z/_.]+" $demo | awk '{print $NF}' | sed 's:/$::; s:^\./::')
  [ -z "$dir" ] && dir=$(python3 -c "import json;print(json.load(open('$M/meta.json')).get('demo_dir',''))" 2>/dev/null)
  if [ -n "$dir" ] && [ -d "$dir" ]; then
    cp $demo $dir/zz_seed_demo_test.go
    if go test -vet=off -count=1 ./$dir/ > /tmp/sv-$$.dw 2>&1; then demo_with=pass; else demo_with=fail; fi
    git checkout -q -- . 
    if go test -vet=off -count=1 ./$dir/ > /tmp/sv-$$.dwo 2>&1; then demo_without=pass; else demo_without=fail; fi
  fi
fi
cat > $M/verified.json <<EOJ
{"property":"$ID","repo_head":"$(git -C /repo log --format=%h -1)","patch_applies":$applies,"builds":$builds,"suite_passes_with_change":$suite,"demo_with_change":"$demo_with","demo_without_change":"$demo_without","demo_dir":"$dir"}
EOJ
cat $M/verified.json
rm -f /tmp/sv-$$.*
