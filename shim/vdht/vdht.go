// Package vdht stands in for storrent's dht package (a cgo wrapper around a C
// library) in the privacy worlds: it records every Announce and Ping and never
// touches the network.
package vdht

import (
	"net/netip"
	"sync"
)

type AnnounceCall struct {
	Hash string
	IPv6 bool
	Port uint16
}

var (
	mu        sync.Mutex
	Announces []AnnounceCall
	Pings     []netip.AddrPort
)

func Reset() {
	mu.Lock()
	Announces = nil
	Pings = nil
	mu.Unlock()
}

func Snapshot() ([]AnnounceCall, []netip.AddrPort) {
	mu.Lock()
	defer mu.Unlock()
	return append([]AnnounceCall{}, Announces...), append([]netip.AddrPort{}, Pings...)
}

func Available() bool { return true }

func Ping(a netip.AddrPort) error {
	mu.Lock()
	Pings = append(Pings, a)
	mu.Unlock()
	return nil
}

func Announce(id []byte, ipv6 bool, port uint16) error {
	mu.Lock()
	Announces = append(Announces, AnnounceCall{string(id), ipv6, port})
	mu.Unlock()
	return nil
}

func Count() (good4 int, good6 int, dubious4 int, dubious6 int, incoming4 int, incoming6 int) {
	return
}
