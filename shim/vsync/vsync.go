// Package vsync is a drop-in for the parts of package sync that storrent
// uses.  Outside a controlled run (sched) it forwards to the real package; in a
// controlled run every operation is a scheduling point and lock state lives in
// the model so that the scheduler knows which threads are enabled.
package vsync

import (
	"sync"

	"github.com/jech/storrent/zzverif/sched"
)

type (
	WaitGroup = sync.WaitGroup
	Once      = sync.Once
	Pool      = sync.Pool
	Cond      = sync.Cond
	Locker    = sync.Locker
)

func NewCond(l Locker) *Cond { return sync.NewCond(l) }

type Mutex struct {
	real   sync.Mutex
	locked bool
}

func (m *Mutex) Lock() {
	switch sched.Yield("Lock", func() bool { return !m.locked }) {
	case sched.Real:
		m.real.Lock()
	case sched.Model:
		m.locked = true
	}
}

func (m *Mutex) TryLock() bool {
	switch sched.Yield("TryLock", nil) {
	case sched.Real:
		return m.real.TryLock()
	case sched.Model:
		if m.locked {
			return false
		}
		m.locked = true
		return true
	}
	return false
}

func (m *Mutex) Unlock() {
	switch sched.Yield("Unlock", nil) {
	case sched.Real:
		m.real.Unlock()
	case sched.Model:
		if !m.locked {
			panic("sync: unlock of unlocked mutex")
		}
		m.locked = false
		sched.Yield("after-Unlock", nil)
	}
}

type RWMutex struct {
	real    sync.RWMutex
	writer  bool
	readers int
}

func (m *RWMutex) Lock() {
	switch sched.Yield("Lock", func() bool { return !m.writer && m.readers == 0 }) {
	case sched.Real:
		m.real.Lock()
	case sched.Model:
		m.writer = true
	}
}

func (m *RWMutex) Unlock() {
	switch sched.Yield("Unlock", nil) {
	case sched.Real:
		m.real.Unlock()
	case sched.Model:
		if !m.writer {
			panic("sync: Unlock of unlocked RWMutex")
		}
		m.writer = false
		// The code that follows an unlock runs outside the critical section:
		// without a second scheduling point here it would execute atomically
		// with the unlock itself, and "another thread gets in between the
		// unlock and the unprotected work" (hashing a busy piece, say) would
		// never be explored.
		sched.Yield("after-Unlock", nil)
	}
}

func (m *RWMutex) RLock() {
	switch sched.Yield("RLock", func() bool { return !m.writer }) {
	case sched.Real:
		m.real.RLock()
	case sched.Model:
		m.readers++
	}
}

func (m *RWMutex) RUnlock() {
	switch sched.Yield("RUnlock", nil) {
	case sched.Real:
		m.real.RUnlock()
	case sched.Model:
		if m.readers <= 0 {
			panic("sync: RUnlock of unlocked RWMutex")
		}
		m.readers--
		sched.Yield("after-RUnlock", nil)
	}
}

// ModelState exposes the model lock state to harness oracles/state keys.
func (m *RWMutex) ModelState() (writer bool, readers int) { return m.writer, m.readers }

// Map wraps sync.Map with a scheduling point before every operation.
type Map struct {
	real sync.Map
}

func (m *Map) Load(k any) (any, bool) {
	sched.Yield("Map.Load", nil)
	return m.real.Load(k)
}

func (m *Map) Store(k, v any) {
	sched.Yield("Map.Store", nil)
	m.real.Store(k, v)
}

func (m *Map) LoadOrStore(k, v any) (any, bool) {
	sched.Yield("Map.LoadOrStore", nil)
	return m.real.LoadOrStore(k, v)
}

func (m *Map) Delete(k any) {
	sched.Yield("Map.Delete", nil)
	m.real.Delete(k)
}

func (m *Map) Range(f func(k, v any) bool) {
	sched.Yield("Map.Range", nil)
	m.real.Range(func(k, v any) bool {
		r := f(k, v)
		sched.Yield("Map.Range.step", nil)
		return r
	})
}
