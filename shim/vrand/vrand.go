// Package vrand is a drop-in for the parts of math/rand/v2 storrent uses.
// Outside a harness-controlled region it forwards to the real package; a
// harness can make the top-level functions deterministic (Fix) and choose the
// shape of Perm (identity / reverse / rotate) so that tie-breaking becomes an
// enumerated choice instead of a coin flip.
package vrand

import (
	"math/rand/v2"
	"sync"
	"time"
)

type (
	Rand   = rand.Rand
	Source = rand.Source
	PCG    = rand.PCG
)

func New(src Source) *Rand            { return rand.New(src) }
func NewPCG(seed1, seed2 uint64) *PCG { return rand.NewPCG(seed1, seed2) }

var (
	mu       sync.Mutex
	fixed    *rand.Rand
	permMode int // 0 real/fixed stream, 1 identity, 2 reverse, 3 rotate-by-one
)

// Fix makes the top-level functions draw from a deterministic stream.
func Fix(seed uint64) {
	mu.Lock()
	fixed = rand.New(rand.NewPCG(seed, seed^0x9e3779b97f4a7c15))
	mu.Unlock()
}

// Unfix returns to the real generator.
func Unfix() {
	mu.Lock()
	fixed = nil
	permMode = 0
	mu.Unlock()
}

// SetPermMode selects the shape of Perm: 0 stream, 1 identity, 2 reverse, 3 rotate.
func SetPermMode(m int) {
	mu.Lock()
	permMode = m
	mu.Unlock()
}

func Perm(n int) []int {
	mu.Lock()
	defer mu.Unlock()
	switch permMode {
	case 1, 2, 3:
		p := make([]int, n)
		for i := range p {
			switch permMode {
			case 1:
				p[i] = i
			case 2:
				p[i] = n - 1 - i
			case 3:
				p[i] = (i + 1) % n
			}
		}
		return p
	}
	if fixed != nil {
		return fixed.Perm(n)
	}
	return rand.Perm(n)
}

func Uint64() uint64 {
	mu.Lock()
	defer mu.Unlock()
	if fixed != nil {
		return fixed.Uint64()
	}
	return rand.Uint64()
}

func Uint32() uint32 {
	mu.Lock()
	defer mu.Unlock()
	if fixed != nil {
		return fixed.Uint32()
	}
	return rand.Uint32()
}

func IntN(n int) int {
	mu.Lock()
	defer mu.Unlock()
	if fixed != nil {
		return fixed.IntN(n)
	}
	return rand.IntN(n)
}

func Int64N(n int64) int64 {
	mu.Lock()
	defer mu.Unlock()
	if fixed != nil {
		return fixed.Int64N(n)
	}
	return rand.Int64N(n)
}

func Float64() float64 {
	mu.Lock()
	defer mu.Unlock()
	if fixed != nil {
		return fixed.Float64()
	}
	return rand.Float64()
}

func Shuffle(n int, swap func(i, j int)) {
	mu.Lock()
	defer mu.Unlock()
	if fixed != nil {
		fixed.Shuffle(n, swap)
		return
	}
	rand.Shuffle(n, swap)
}

// N mirrors rand.N for the one instantiation storrent uses (time.Duration) and
// for plain integers.
func N[Int interface {
	~int | ~int8 | ~int16 | ~int32 | ~int64 | ~uint | ~uint8 | ~uint16 | ~uint32 | ~uint64 | ~uintptr
}](n Int) Int {
	mu.Lock()
	defer mu.Unlock()
	if fixed != nil {
		return Int(fixed.Uint64N(uint64(n)))
	}
	return rand.N(n)
}

var _ = time.Second
