// Package refmse is an independent implementation of BitTorrent Message Stream
// Encryption, written from the specification, used as the reference peer of
// the C07/C08 harnesses.  It shares no code with storrent's crypto package.
//
//	1 A->B: Ya, PadA
//	2 B->A: Yb, PadB
//	3 A->B: HASH('req1',S), HASH('req2',SKEY) xor HASH('req3',S),
//	        ENCRYPT(VC, crypto_provide, len(PadC), PadC, len(IA)), ENCRYPT(IA)
//	4 B->A: ENCRYPT(VC, crypto_select, len(PadD), PadD), ENCRYPT2(payload)
//	5 A->B: ENCRYPT2(payload)
package refmse

import (
	"bufio"
	"bytes"
	"crypto/rc4"
	"crypto/sha1"
	"errors"
	"fmt"
	"io"
	"math/big"
)

var prime, _ = new(big.Int).SetString("FFFFFFFFFFFFFFFFC90FDAA22168C234C4C6628B80DC1CD129024E088A67CC74020BBEA63B139B22514A08798E3404DDEF9519B3CD3A431B302B0A6DF25F14374FE1356D6D51C245E485B576625E7EC6F44C42E9A63A36210000000000090563", 16)
var gen = big.NewInt(2)

func h(parts ...[]byte) []byte {
	s := sha1.New()
	for _, p := range parts {
		s.Write(p)
	}
	return s.Sum(nil)
}

func pub(secret []byte) []byte {
	x := new(big.Int).SetBytes(secret)
	y := new(big.Int).Exp(gen, x, prime)
	return y.FillBytes(make([]byte, 96))
}

// Shared returns the Diffie-Hellman secret S (96 bytes, big-endian, leading
// zeros kept, as the MSE specification prescribes) for a private value and the
// peer's public value.
func Shared(secret, other []byte) []byte { return shared(secret, other) }

func shared(secret, other []byte) []byte {
	x := new(big.Int).SetBytes(secret)
	y := new(big.Int).SetBytes(other)
	return new(big.Int).Exp(y, x, prime).FillBytes(make([]byte, 96))
}

// Keys returns the RC4 ciphers (A->B, B->A) for a shared secret and skey,
// with the first 1024 bytes of each keystream discarded.
func Keys(s, skey []byte) (a2b, b2a *rc4.Cipher) {
	a2b, _ = rc4.NewCipher(h([]byte("keyA"), s, skey))
	b2a, _ = rc4.NewCipher(h([]byte("keyB"), s, skey))
	d := make([]byte, 1024)
	a2b.XORKeyStream(d, d)
	b2a.XORKeyStream(d, d)
	return
}

func pad(n int, seed byte) []byte {
	b := make([]byte, n)
	for i := range b {
		b[i] = byte(i)*7 + seed
	}
	return b
}

func be16(v int) []byte   { return []byte{byte(v >> 8), byte(v)} }
func be32(v uint32) []byte { return []byte{byte(v >> 24), byte(v >> 16), byte(v >> 8), byte(v)} }

// Stream is the payload stream after the handshake.
type Stream struct {
	r   *bufio.Reader
	w   io.Writer
	enc *rc4.Cipher // nil = plaintext
	dec *rc4.Cipher
}

func (s *Stream) Encrypted() bool { return s.enc != nil }

func (s *Stream) Read(p []byte) (int, error) {
	n, err := s.r.Read(p)
	if s.dec != nil {
		s.dec.XORKeyStream(p[:n], p[:n])
	}
	return n, err
}

func (s *Stream) Write(p []byte) (int, error) {
	if s.enc == nil {
		return s.w.Write(p)
	}
	b := make([]byte, len(p))
	s.enc.XORKeyStream(b, p)
	return s.w.Write(b)
}

// ClientParams configures the initiating side (A).
type ClientParams struct {
	Secret  []byte
	PadA    int
	Provide uint32
	PadC    int
	IA      []byte
	SKey    []byte
	// Early is sent, encrypted according to OnlyMethod, immediately after
	// message 3 without waiting for message 4 (only meaningful when the client
	// offers a single method, otherwise it cannot know the cipher).
	Pipeline []byte
	S        []byte // out: the shared secret
	PeerPub  []byte // out: Yb as received
}

// Client runs side A.  It returns the payload stream and crypto_select.
func Client(c io.ReadWriter, p *ClientParams) (*Stream, uint32, error) {
	if _, err := c.Write(append(pub(p.Secret), pad(p.PadA, 0x11)...)); err != nil {
		return nil, 0, err
	}
	r := bufio.NewReaderSize(c, 4096)
	yb := make([]byte, 96)
	if _, err := io.ReadFull(r, yb); err != nil {
		return nil, 0, fmt.Errorf("reading Yb: %w", err)
	}
	s := shared(p.Secret, yb)
	p.S = s
	p.PeerPub = append([]byte{}, yb...)
	a2b, b2a := Keys(s, p.SKey)
	msg := append(h([]byte("req1"), s), xor(h([]byte("req2"), p.SKey), h([]byte("req3"), s))...)
	plain := append([]byte{0, 0, 0, 0, 0, 0, 0, 0}, be32(p.Provide)...)
	plain = append(plain, be16(p.PadC)...)
	plain = append(plain, pad(p.PadC, 0x22)...)
	plain = append(plain, be16(len(p.IA))...)
	plain = append(plain, p.IA...)
	enc := make([]byte, len(plain))
	a2b.XORKeyStream(enc, plain)
	out := append(msg, enc...)
	if len(p.Pipeline) > 0 {
		// a client that offers a single method knows what will be selected
		// and may pipeline payload behind message 3
		pl := append([]byte{}, p.Pipeline...)
		if p.Provide == 2 {
			a2b.XORKeyStream(pl, pl)
		}
		out = append(out, pl...)
	}
	if _, err := c.Write(out); err != nil {
		return nil, 0, err
	}
	// synchronise on ENCRYPT(VC): PadB is at most 512 bytes
	vc := make([]byte, 8)
	b2a.XORKeyStream(vc, vc)
	var win []byte
	for i := 0; ; i++ {
		if i > 512+8 {
			return nil, 0, errors.New("refmse: VC not found")
		}
		b, err := r.ReadByte()
		if err != nil {
			return nil, 0, fmt.Errorf("synchronising on VC: %w", err)
		}
		win = append(win, b)
		if len(win) > 8 {
			win = win[1:]
		}
		if bytes.Equal(win, vc) {
			break
		}
	}
	hdr := make([]byte, 6)
	if _, err := io.ReadFull(r, hdr); err != nil {
		return nil, 0, err
	}
	b2a.XORKeyStream(hdr, hdr)
	sel := uint32(hdr[0])<<24 | uint32(hdr[1])<<16 | uint32(hdr[2])<<8 | uint32(hdr[3])
	padD := int(hdr[4])<<8 | int(hdr[5])
	if padD > 512 {
		return nil, sel, errors.New("refmse: PadD too long")
	}
	pd := make([]byte, padD)
	if _, err := io.ReadFull(r, pd); err != nil {
		return nil, sel, err
	}
	b2a.XORKeyStream(pd, pd)
	st := &Stream{r: r, w: c}
	switch sel {
	case 1:
	case 2:
		st.enc, st.dec = a2b, b2a
	default:
		return nil, sel, fmt.Errorf("refmse: crypto_select %d", sel)
	}
	if sel&p.Provide == 0 {
		return nil, sel, fmt.Errorf("refmse: peer selected %d, not offered (%d)", sel, p.Provide)
	}
	return st, sel, nil
}

// ServerParams configures the receiving side (B).
type ServerParams struct {
	Secret []byte
	PadB   int
	PadD   int
	SKeys  [][]byte
	// Select maps crypto_provide to crypto_select (default: prefer RC4).
	Select func(provide uint32) uint32
	// out
	SKey    []byte
	IA      []byte
	Provide uint32
	S       []byte
	PeerPub []byte // Ya as received
}

// Server runs side B.
func Server(c io.ReadWriter, p *ServerParams) (*Stream, error) {
	r := bufio.NewReaderSize(c, 4096)
	ya := make([]byte, 96)
	if _, err := io.ReadFull(r, ya); err != nil {
		return nil, fmt.Errorf("reading Ya: %w", err)
	}
	if _, err := c.Write(append(pub(p.Secret), pad(p.PadB, 0x33)...)); err != nil {
		return nil, err
	}
	s := shared(p.Secret, ya)
	p.S = s
	p.PeerPub = append([]byte{}, ya...)
	req1 := h([]byte("req1"), s)
	var win []byte
	for i := 0; ; i++ {
		if i > 512+20 {
			return nil, errors.New("refmse: req1 not found")
		}
		b, err := r.ReadByte()
		if err != nil {
			return nil, fmt.Errorf("synchronising on req1: %w", err)
		}
		win = append(win, b)
		if len(win) > 20 {
			win = win[1:]
		}
		if bytes.Equal(win, req1) {
			break
		}
	}
	req23 := make([]byte, 20)
	if _, err := io.ReadFull(r, req23); err != nil {
		return nil, err
	}
	want := xor(req23, h([]byte("req3"), s))
	for _, k := range p.SKeys {
		if bytes.Equal(want, h([]byte("req2"), k)) {
			p.SKey = k
		}
	}
	if p.SKey == nil {
		return nil, errors.New("refmse: unknown skey")
	}
	a2b, b2a := Keys(s, p.SKey)
	hdr := make([]byte, 14)
	if _, err := io.ReadFull(r, hdr); err != nil {
		return nil, err
	}
	a2b.XORKeyStream(hdr, hdr)
	if !bytes.Equal(hdr[:8], make([]byte, 8)) {
		return nil, errors.New("refmse: bad VC")
	}
	p.Provide = uint32(hdr[8])<<24 | uint32(hdr[9])<<16 | uint32(hdr[10])<<8 | uint32(hdr[11])
	padC := int(hdr[12])<<8 | int(hdr[13])
	if padC > 512 {
		return nil, errors.New("refmse: PadC too long")
	}
	rest := make([]byte, padC+2)
	if _, err := io.ReadFull(r, rest); err != nil {
		return nil, err
	}
	a2b.XORKeyStream(rest, rest)
	lia := int(rest[padC])<<8 | int(rest[padC+1])
	p.IA = make([]byte, lia)
	if _, err := io.ReadFull(r, p.IA); err != nil {
		return nil, err
	}
	a2b.XORKeyStream(p.IA, p.IA)
	sel := uint32(0)
	if p.Select != nil {
		sel = p.Select(p.Provide)
	} else if p.Provide&2 != 0 {
		sel = 2
	} else if p.Provide&1 != 0 {
		sel = 1
	}
	if sel == 0 {
		return nil, errors.New("refmse: nothing to select")
	}
	plain := append(make([]byte, 8), be32(sel)...)
	plain = append(plain, be16(p.PadD)...)
	plain = append(plain, pad(p.PadD, 0x44)...)
	enc := make([]byte, len(plain))
	b2a.XORKeyStream(enc, plain)
	if _, err := c.Write(enc); err != nil {
		return nil, err
	}
	st := &Stream{r: r, w: c}
	if sel == 2 {
		st.enc, st.dec = b2a, a2b
	}
	return st, nil
}

func xor(a, b []byte) []byte {
	o := make([]byte, len(a))
	for i := range a {
		o[i] = a[i] ^ b[i]
	}
	return o
}
