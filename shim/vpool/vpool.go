// Package vpool stands in for package sync in files that use sync only for a
// sync.Pool of byte buffers (protocol/reader.go).  The pool is deterministic
// (last in, first out, so a buffer released too early is handed straight to
// the next user) and poisons every buffer it takes back, so that any use of a
// buffer after PutBuffer shows on the wire or in the store as wrong bytes.
package vpool

import "sync"

const Poison = 0xDB

type Pool struct {
	New  func() any
	mu   sync.Mutex
	free []any
}

var (
	statMu sync.Mutex
	puts   int
	reuses int
	double int
)

// ResetStats zeroes the counters.
func ResetStats() {
	statMu.Lock()
	puts, reuses, double = 0, 0, 0
	statMu.Unlock()
}

// Stats returns the number of Puts, of Gets served from the free list, and of
// buffers put back while already on the free list.
func Stats() (int, int, int) {
	statMu.Lock()
	defer statMu.Unlock()
	return puts, reuses, double
}

func (p *Pool) Get() any {
	p.mu.Lock()
	if n := len(p.free); n > 0 {
		x := p.free[n-1]
		p.free = p.free[:n-1]
		p.mu.Unlock()
		statMu.Lock()
		reuses++
		statMu.Unlock()
		return x
	}
	p.mu.Unlock()
	if p.New == nil {
		return nil
	}
	return p.New()
}

func (p *Pool) Put(x any) {
	if b, ok := x.([]byte); ok {
		b = b[:cap(b)]
		for i := range b {
			b[i] = Poison
		}
		p.mu.Lock()
		for _, y := range p.free {
			if c, ok := y.([]byte); ok && cap(c) > 0 && cap(b) > 0 && &c[:1][0] == &b[:1][0] {
				// released twice: it is counted (a harness reports it) and, as a
				// real pool would, handed out twice from now on
				statMu.Lock()
				double++
				statMu.Unlock()
				break
			}
		}
		p.mu.Unlock()
	}
	statMu.Lock()
	puts++
	statMu.Unlock()
	p.mu.Lock()
	if len(p.free) < 64 {
		p.free = append(p.free, x)
	}
	p.mu.Unlock()
}
