// Package vtime is a drop-in for the parts of package time storrent uses.
// The clock is, in order of precedence: the virtual clock set by a harness
// (engines A and C); inside a testing/synctest bubble, the bubble's fake clock
// mapped to just after process start (so that package mono, which fixes its
// origin at process start, keeps working); otherwise the real clock.
package vtime

import (
	"sync/atomic"
	"time"

	"github.com/jech/storrent/zzverif/sched"
)

type (
	Time     = time.Time
	Duration = time.Duration
	Month    = time.Month
	Weekday  = time.Weekday
	Location = time.Location
	Timer    = time.Timer
	Ticker   = time.Ticker
)

const (
	Nanosecond  = time.Nanosecond
	Microsecond = time.Microsecond
	Millisecond = time.Millisecond
	Second      = time.Second
	Minute      = time.Minute
	Hour        = time.Hour

	RFC1123  = time.RFC1123
	RFC3339  = time.RFC3339
	RFC822   = time.RFC822
	Kitchen  = time.Kitchen
	DateTime = time.DateTime
)

var (
	UTC   = time.UTC
	Local = time.Local
)

var base = time.Now().Add(2 * time.Second).Round(0)

var bubbleEpoch = time.Date(2000, 1, 1, 0, 0, 0, 0, time.UTC)

// virtual clock: nanoseconds after base, or -1 if unset
var virt atomic.Int64

func init() { virt.Store(-1) }

// Base returns the instant that corresponds to virtual time zero.
func Base() Time { return base }

// SetVirtual switches to the virtual clock and sets it to base+d.
func SetVirtual(d Duration) { virt.Store(int64(d)) }

// Advance moves the virtual clock forward.
func Advance(d Duration) { virt.Add(int64(d)) }

// ClearVirtual returns to the bubble/real clock.
func ClearVirtual() { virt.Store(-1) }

// Sleeps counts calls to Sleep on the virtual clock (diagnostics).
var Sleeps atomic.Int64

func Now() Time {
	if v := virt.Load(); v >= 0 {
		return base.Add(Duration(v))
	}
	n := time.Now()
	if n.Year() < 2015 {
		// inside a synctest bubble
		return base.Add(n.Sub(bubbleEpoch))
	}
	return n
}

func Since(t Time) Duration { return Now().Sub(t) }
func Until(t Time) Duration { return t.Sub(Now()) }

func Sleep(d Duration) {
	switch sched.Sleep("Sleep") {
	case sched.Real:
		if virt.Load() >= 0 {
			Sleeps.Add(1)
			virt.Add(int64(d))
			return
		}
		time.Sleep(d)
	case sched.Model:
		Sleeps.Add(1)
	}
}

func After(d Duration) <-chan Time                   { return time.After(d) }
func NewTimer(d Duration) *Timer                     { return time.NewTimer(d) }
func NewTicker(d Duration) *Ticker                   { return time.NewTicker(d) }
func AfterFunc(d Duration, f func()) *Timer          { return time.AfterFunc(d, f) }
func Tick(d Duration) <-chan Time                    { return time.Tick(d) }
func Unix(sec, nsec int64) Time                      { return time.Unix(sec, nsec) }
func UnixMilli(ms int64) Time                        { return time.UnixMilli(ms) }
func Parse(layout, value string) (Time, error)       { return time.Parse(layout, value) }
func ParseDuration(s string) (Duration, error)       { return time.ParseDuration(s) }
func Date(y int, m Month, d, h, mi, s, ns int, l *Location) Time {
	return time.Date(y, m, d, h, mi, s, ns, l)
}
