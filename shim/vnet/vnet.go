// Package vnet is a drop-in for the parts of package net that peer.go,
// initial.go and udp.go use, with scripted Dial / Dialer so that no socket is
// ever opened by a harness.
package vnet

import (
	"context"
	"errors"
	"net"
	"sync"
	"time"
)

type (
	Conn       = net.Conn
	TCPConn    = net.TCPConn
	TCPAddr    = net.TCPAddr
	UDPAddr    = net.UDPAddr
	UDPConn    = net.UDPConn
	Addr       = net.Addr
	IP         = net.IP
	Error      = net.Error
	OpError    = net.OpError
	PacketConn = net.PacketConn
	Listener   = net.Listener
)

var (
	ErrClosed = net.ErrClosed
	IPv4zero  = net.IPv4zero
)

var (
	mu sync.Mutex
	// DialHook, if set, serves Dial and Dialer.DialContext.
	DialHook func(ctx context.Context, network, address string) (net.Conn, error)
	// Dials records (network, address) of every dial attempt.
	Dials []string
)

func SetDialHook(h func(ctx context.Context, network, address string) (net.Conn, error)) {
	mu.Lock()
	DialHook = h
	Dials = nil
	mu.Unlock()
}

func dial(ctx context.Context, network, address string) (net.Conn, error) {
	mu.Lock()
	h := DialHook
	Dials = append(Dials, network+" "+address)
	mu.Unlock()
	if h == nil {
		return nil, errors.New("vnet: no network in the verification sandbox")
	}
	return h(ctx, network, address)
}

func Dial(network, address string) (net.Conn, error) {
	return dial(context.Background(), network, address)
}

func DialTimeout(network, address string, d time.Duration) (net.Conn, error) {
	return dial(context.Background(), network, address)
}

func Pipe() (net.Conn, net.Conn) { return net.Pipe() }

func JoinHostPort(h, p string) string                  { return net.JoinHostPort(h, p) }
func SplitHostPort(hp string) (string, string, error)  { return net.SplitHostPort(hp) }
func ParseIP(s string) net.IP                          { return net.ParseIP(s) }
func ResolveUDPAddr(n, a string) (*net.UDPAddr, error) { return net.ResolveUDPAddr(n, a) }
func LookupHost(h string) ([]string, error)            { return nil, errors.New("vnet: no resolver") }

// Dialer mirrors net.Dialer's fields that storrent sets.
type Dialer struct {
	Timeout   time.Duration
	KeepAlive time.Duration
	DualStack bool
	mptcp     bool
}

func (d *Dialer) SetMultipathTCP(b bool) { d.mptcp = b }

func (d *Dialer) DialContext(ctx context.Context, network, address string) (net.Conn, error) {
	return dial(ctx, network, address)
}

func (d *Dialer) Dial(network, address string) (net.Conn, error) {
	return dial(context.Background(), network, address)
}

// FakeUDPConn is what a scripted Dial hands to getIPv6: only LocalAddr matters.
type FakeUDPConn struct {
	net.Conn
	Local net.Addr
}

func (c *FakeUDPConn) LocalAddr() net.Addr { return c.Local }
func (c *FakeUDPConn) Close() error        { return nil }
