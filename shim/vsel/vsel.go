// Package vsel makes Go's choice among the ready arms of a select statement a
// decision the harness can own.  tools/mkoverlay rewrites the select statements
// of chosen repository files into
//
//	{ c0 := vsel.RecvCase(ch0); c1 := vsel.SendCase(ch1, v); switch vsel.Select("file:line", hasDefault, c0, c1) { case 0: x := c0.Val(); ... } }
//
// which evaluates the channel and value expressions once, in source order, as
// the select statement does.  Without a hook (or when the hook declines) Select
// is an ordinary select over the same arms (reflect.Select).  A hook can park
// the goroutine and later make it take one specific ready arm.
package vsel

import (
	"reflect"
	"sync/atomic"
)

// Case is one arm of a rewritten select.
type Case interface {
	arm() reflect.SelectCase
	got(v reflect.Value, ok bool)
	// Chan returns the channel of the arm (for identification by a hook).
	Chan() any
}

// RC is a receive arm.
type RC[T any] struct {
	ch <-chan T
	v  T
	ok bool
}

func RecvCase[T any](ch <-chan T) *RC[T] { return &RC[T]{ch: ch} }

func (c *RC[T]) arm() reflect.SelectCase {
	return reflect.SelectCase{Dir: reflect.SelectRecv, Chan: reflect.ValueOf(c.ch)}
}
func (c *RC[T]) got(v reflect.Value, ok bool) {
	c.ok = ok
	if ok && v.IsValid() {
		c.v, _ = v.Interface().(T)
	}
}
func (c *RC[T]) Chan() any      { return c.ch }
func (c *RC[T]) Val() T         { return c.v }
func (c *RC[T]) Val2() (T, bool) { return c.v, c.ok }

// SC is a send arm.
type SC struct {
	ch reflect.Value
	v  reflect.Value
	c  any
}

// SendCase builds a send arm; v must be assignable to the channel's element type.
func SendCase(ch any, v any) *SC {
	cv := reflect.ValueOf(ch)
	s := &SC{ch: cv, c: ch}
	if cv.IsValid() && cv.Kind() == reflect.Chan {
		ev := reflect.New(cv.Type().Elem()).Elem()
		if v != nil {
			ev.Set(reflect.ValueOf(v))
		}
		s.v = ev
	}
	return s
}

func (c *SC) arm() reflect.SelectCase {
	if !c.ch.IsValid() || c.ch.Kind() != reflect.Chan || c.ch.IsNil() {
		// a nil channel: never ready
		return reflect.SelectCase{Dir: reflect.SelectRecv, Chan: reflect.ValueOf((chan struct{})(nil))}
	}
	return reflect.SelectCase{Dir: reflect.SelectSend, Chan: c.ch, Send: c.v}
}
func (c *SC) got(reflect.Value, bool) {}
func (c *SC) Chan() any               { return c.c }

// Hook decides a select: it returns the index of the arm it has taken (the arm's
// communication has been performed through Take), -1 for default, and
// handled=false to let the ordinary select run.
type Hook func(id string, hasDefault bool, cases []Case) (idx int, handled bool)

var hook atomic.Pointer[Hook]

// SetHook installs (or, with nil, removes) the hook.
func SetHook(h Hook) {
	if h == nil {
		hook.Store(nil)
		return
	}
	hook.Store(&h)
}

// Select is the rewritten select statement.
func Select(id string, hasDefault bool, cases ...Case) int {
	if h := hook.Load(); h != nil {
		if i, handled := (*h)(id, hasDefault, cases); handled {
			return i
		}
	}
	arms := make([]reflect.SelectCase, 0, len(cases)+1)
	for _, c := range cases {
		arms = append(arms, c.arm())
	}
	if hasDefault {
		arms = append(arms, reflect.SelectCase{Dir: reflect.SelectDefault})
	}
	i, v, ok := reflect.Select(arms)
	if i == len(cases) {
		return -1
	}
	cases[i].got(v, ok)
	return i
}

// Take performs the communication of arm i if it is ready right now and
// reports whether it did.
func Take(cases []Case, i int) bool {
	if i < 0 || i >= len(cases) {
		return false
	}
	k, v, ok := reflect.Select([]reflect.SelectCase{cases[i].arm(), {Dir: reflect.SelectDefault}})
	if k != 0 {
		return false
	}
	cases[i].got(v, ok)
	return true
}
