// Package vcrand is a drop-in for crypto/rand.Read.  Outside a harness it
// forwards to the real generator; a harness can switch to a deterministic
// stream and script the values of 2-byte reads (storrent draws the MSE pad
// length from a 2-byte read), so that DH secrets, pads and peer ids are fixed
// or explorer-chosen.
package vcrand

import (
	"crypto/rand"
	"encoding/binary"
	"io"
	"sync"
)

var Reader io.Reader = rand.Reader

var (
	mu      sync.Mutex
	fixed   bool
	counter uint64
	pads    []int // successive values for 2-byte reads (pad lengths); -1 = from the stream
)

// Fix switches to the deterministic stream (restarting it) and installs the
// script of pad lengths.
func Fix(padLens ...int) {
	mu.Lock()
	fixed = true
	counter = 0
	pads = append([]int{}, padLens...)
	mu.Unlock()
}

// Unfix returns to the real generator.
func Unfix() {
	mu.Lock()
	fixed = false
	mu.Unlock()
}

func splitmix(x uint64) uint64 {
	x += 0x9e3779b97f4a7c15
	x = (x ^ (x >> 30)) * 0xbf58476d1ce4e5b9
	x = (x ^ (x >> 27)) * 0x94d049bb133111eb
	return x ^ (x >> 31)
}

func Read(b []byte) (int, error) {
	mu.Lock()
	defer mu.Unlock()
	if !fixed {
		return rand.Read(b)
	}
	if len(b) == 2 && len(pads) > 0 {
		p := pads[0]
		pads = pads[1:]
		if p >= 0 {
			binary.BigEndian.PutUint16(b, uint16(p))
			return 2, nil
		}
	}
	for i := range b {
		if i%8 == 0 {
			counter++
		}
		b[i] = byte(splitmix(counter) >> (8 * (i % 8)))
	}
	return len(b), nil
}

func Int(r io.Reader, max interface{}) (interface{}, error) { panic("vcrand: Int not supported") }
