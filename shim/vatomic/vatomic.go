// Package vatomic is a drop-in for the sync/atomic functions storrent uses;
// each call is a scheduling point of a controlled run (sched), and forwards to
// the real operation in every mode.
package vatomic

import (
	"sync/atomic"

	"github.com/jech/storrent/zzverif/sched"
)

type (
	Int32   = atomic.Int32
	Int64   = atomic.Int64
	Uint32  = atomic.Uint32
	Uint64  = atomic.Uint64
	Bool    = atomic.Bool
	Value   = atomic.Value
)

func LoadUint32(addr *uint32) uint32 {
	sched.Yield("LoadUint32", nil)
	v := atomic.LoadUint32(addr)
	sched.Observe(v)
	return v
}

func StoreUint32(addr *uint32, v uint32) {
	sched.Yield("StoreUint32", nil)
	atomic.StoreUint32(addr, v)
}

func AddUint32(addr *uint32, d uint32) uint32 {
	sched.Yield("AddUint32", nil)
	v := atomic.AddUint32(addr, d)
	sched.Observe(v)
	return v
}

func CompareAndSwapUint32(addr *uint32, old, new uint32) bool {
	sched.Yield("CASUint32", nil)
	v := atomic.CompareAndSwapUint32(addr, old, new)
	sched.Observe(v)
	return v
}

func LoadInt32(addr *int32) int32 {
	sched.Yield("LoadInt32", nil)
	v := atomic.LoadInt32(addr)
	sched.Observe(v)
	return v
}

func StoreInt32(addr *int32, v int32) {
	sched.Yield("StoreInt32", nil)
	atomic.StoreInt32(addr, v)
}

func AddInt32(addr *int32, d int32) int32 {
	sched.Yield("AddInt32", nil)
	v := atomic.AddInt32(addr, d)
	sched.Observe(v)
	return v
}

func CompareAndSwapInt32(addr *int32, old, new int32) bool {
	sched.Yield("CASInt32", nil)
	v := atomic.CompareAndSwapInt32(addr, old, new)
	sched.Observe(v)
	return v
}

func LoadInt64(addr *int64) int64 {
	sched.Yield("LoadInt64", nil)
	v := atomic.LoadInt64(addr)
	sched.Observe(v)
	return v
}

func StoreInt64(addr *int64, v int64) {
	sched.Yield("StoreInt64", nil)
	atomic.StoreInt64(addr, v)
}

func AddInt64(addr *int64, d int64) int64 {
	sched.Yield("AddInt64", nil)
	v := atomic.AddInt64(addr, d)
	sched.Observe(v)
	return v
}

func CompareAndSwapInt64(addr *int64, old, new int64) bool {
	sched.Yield("CASInt64", nil)
	v := atomic.CompareAndSwapInt64(addr, old, new)
	sched.Observe(v)
	return v
}

func LoadUint64(addr *uint64) uint64 {
	sched.Yield("LoadUint64", nil)
	return atomic.LoadUint64(addr)
}

func StoreUint64(addr *uint64, v uint64) {
	sched.Yield("StoreUint64", nil)
	atomic.StoreUint64(addr, v)
}

func AddUint64(addr *uint64, d uint64) uint64 {
	sched.Yield("AddUint64", nil)
	return atomic.AddUint64(addr, d)
}
