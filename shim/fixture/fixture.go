// Package fixture builds live torrents with known ("true") content for the
// front-end harnesses (HTTP, FUSE): metainfo is generated with the reference
// bencoder, parsed by the real tor.ReadTorrent, started with the real
// tor.AddTorrent, and every piece is stored and verified through the real
// AddData / Finalise.
package fixture

import (
	"bytes"
	"context"
	"fmt"
	"io"
	"log"

	"github.com/jech/storrent/tor"
	"github.com/jech/storrent/zzverif/fixmeta"
	rc "github.com/jech/storrent/zzverif/refcodec"
)

// File is one entry of a multi-file torrent.
type File = fixmeta.File

// Metainfo returns the bencoded .torrent for the given layout and its true content.
func Metainfo(name string, files []File, pieceLen int, extra func(top, info *rc.Dict)) ([]byte, []byte) {
	return fixmeta.Metainfo(name, files, pieceLen, extra)
}

// T is a live fixture torrent.
type T struct {
	Tor    *tor.Torrent
	Truth  []byte
	Files  []File
	Name   string
	Offset []int64
}

// Build creates, starts and fills a torrent.  A single File with a nil Path
// makes a single-file torrent called name.
func Build(name string, files []File, pieceLen int, extra func(top, info *rc.Dict)) (*T, error) {
	meta, truth := Metainfo(name, files, pieceLen, extra)
	t, err := tor.ReadTorrent("", bytes.NewReader(meta))
	if err != nil {
		return nil, fmt.Errorf("ReadTorrent: %w", err)
	}
	t.Log = log.New(io.Discard, "", 0)
	t2, err := tor.AddTorrent(context.Background(), t)
	if err != nil {
		return nil, fmt.Errorf("AddTorrent: %w", err)
	}
	fx := &T{Tor: t2, Truth: truth, Files: files, Name: name}
	var off int64
	for _, f := range files {
		fx.Offset = append(fx.Offset, off)
		off += f.Length
	}
	if err := fx.Fill(); err != nil {
		fx.Close()
		return nil, err
	}
	return fx, nil
}

// Fill stores and verifies every piece.
func (fx *T) Fill() error {
	t := fx.Tor
	ps := int64(t.Pieces.PieceSize())
	for i := 0; i < t.Pieces.Num(); i++ {
		s := int64(i) * ps
		e := s + ps
		if e > int64(len(fx.Truth)) {
			e = int64(len(fx.Truth))
		}
		if t.Pieces.Complete(uint32(i)) {
			continue
		}
		if _, _, err := t.Pieces.AddData(uint32(i), 0, append([]byte{}, fx.Truth[s:e]...), ^uint32(0)); err != nil {
			return err
		}
		done, _, err := t.Pieces.Finalise(uint32(i), t.PieceHashes[i])
		if !done || err != nil {
			return fmt.Errorf("Finalise(%d): %v %v", i, done, err)
		}
	}
	return nil
}

// Close deletes the torrent and waits for its loop to exit.
func (fx *T) Close() {
	fx.Tor.Kill(context.Background())
	<-fx.Tor.Deleted
}
