// Package fixture builds live torrents with known ("true") content for the
// front-end harnesses (HTTP, FUSE): metainfo is generated with the reference
// bencoder, parsed by the real tor.ReadTorrent, started with the real
// tor.AddTorrent, and every piece is stored and verified through the real
// AddData / Finalise.
package fixture

import (
	"bytes"
	"context"
	"crypto/sha1"
	"fmt"
	"io"
	"log"

	"github.com/jech/storrent/tor"
	rc "github.com/jech/storrent/zzverif/refcodec"
)

// File is one entry of a multi-file torrent.
type File struct {
	Path    []string
	Length  int64
	Padding bool
}

// T is a live fixture torrent.
type T struct {
	Tor    *tor.Torrent
	Truth  []byte
	Files  []File
	Name   string
	Offset []int64
}

func truthByte(i int64) byte {
	x := uint64(i)*0x9e3779b97f4a7c15 + 0xabcdef
	x ^= x >> 29
	x *= 0xbf58476d1ce4e5b9
	x ^= x >> 32
	return byte(x) | 1
}

// Metainfo returns the bencoded .torrent for the given layout.
func Metainfo(name string, files []File, pieceLen int, extra func(top, info *rc.Dict)) ([]byte, []byte) {
	var total int64
	for _, f := range files {
		total += f.Length
	}
	truth := make([]byte, total)
	for i := range truth {
		truth[i] = truthByte(int64(i))
	}
	// padding files are zero-filled by definition
	var off int64
	for _, f := range files {
		if f.Padding {
			for i := off; i < off+f.Length; i++ {
				truth[i] = 0
			}
		}
		off += f.Length
	}
	var pieces []byte
	for s := int64(0); s < total; s += int64(pieceLen) {
		e := s + int64(pieceLen)
		if e > total {
			e = total
		}
		h := sha1.Sum(truth[s:e])
		pieces = append(pieces, h[:]...)
	}
	info := &rc.Dict{}
	if len(files) == 1 && files[0].Path == nil {
		info.Set("length", files[0].Length)
	} else {
		var fl []rc.Value
		for _, f := range files {
			d := &rc.Dict{}
			if f.Padding {
				d.Set("attr", "p")
			}
			d.Set("length", f.Length)
			var p []rc.Value
			p = []rc.Value{}
			for _, c := range f.Path {
				p = append(p, c)
			}
			d.Set("path", p)
			fl = append(fl, d)
		}
		info.Set("files", fl)
	}
	info.Set("name", name)
	info.Set("piece length", int64(pieceLen))
	info.Set("pieces", pieces)
	top := &rc.Dict{}
	top.Set("info", info)
	if extra != nil {
		extra(top, info)
	}
	return rc.Bencode(top), truth
}

// Build creates, starts and fills a torrent.  A single File with a nil Path
// makes a single-file torrent called name.
func Build(name string, files []File, pieceLen int, extra func(top, info *rc.Dict)) (*T, error) {
	meta, truth := Metainfo(name, files, pieceLen, extra)
	t, err := tor.ReadTorrent("", bytes.NewReader(meta))
	if err != nil {
		return nil, fmt.Errorf("ReadTorrent: %w", err)
	}
	t.Log = log.New(io.Discard, "", 0)
	t2, err := tor.AddTorrent(context.Background(), t)
	if err != nil {
		return nil, fmt.Errorf("AddTorrent: %w", err)
	}
	fx := &T{Tor: t2, Truth: truth, Files: files, Name: name}
	var off int64
	for _, f := range files {
		fx.Offset = append(fx.Offset, off)
		off += f.Length
	}
	if err := fx.Fill(); err != nil {
		fx.Close()
		return nil, err
	}
	return fx, nil
}

// Fill stores and verifies every piece.
func (fx *T) Fill() error {
	t := fx.Tor
	ps := int64(t.Pieces.PieceSize())
	for i := 0; i < t.Pieces.Num(); i++ {
		s := int64(i) * ps
		e := s + ps
		if e > int64(len(fx.Truth)) {
			e = int64(len(fx.Truth))
		}
		if t.Pieces.Complete(uint32(i)) {
			continue
		}
		if _, _, err := t.Pieces.AddData(uint32(i), 0, append([]byte{}, fx.Truth[s:e]...), ^uint32(0)); err != nil {
			return err
		}
		done, _, err := t.Pieces.Finalise(uint32(i), t.PieceHashes[i])
		if !done || err != nil {
			return fmt.Errorf("Finalise(%d): %v %v", i, done, err)
		}
	}
	return nil
}

// Close deletes the torrent and waits for its loop to exit.
func (fx *T) Close() {
	fx.Tor.Kill(context.Background())
	<-fx.Tor.Deleted
}
