// Package fixmeta generates metainfo (.torrent) files with known content for
// the harnesses; it does not depend on storrent's tor package.
package fixmeta

import (
	"crypto/sha1"

	rc "github.com/jech/storrent/zzverif/refcodec"
)

// File is one entry of a multi-file torrent.
type File struct {
	Path    []string
	Length  int64
	Padding bool
}

func truthByte(i int64) byte {
	x := uint64(i)*0x9e3779b97f4a7c15 + 0xabcdef
	x ^= x >> 29
	x *= 0xbf58476d1ce4e5b9
	x ^= x >> 32
	return byte(x) | 1
}

// Metainfo returns the bencoded .torrent for the given layout.
func Metainfo(name string, files []File, pieceLen int, extra func(top, info *rc.Dict)) ([]byte, []byte) {
	var total int64
	for _, f := range files {
		total += f.Length
	}
	truth := make([]byte, total)
	for i := range truth {
		truth[i] = truthByte(int64(i))
	}
	// padding files are zero-filled by definition
	var off int64
	for _, f := range files {
		if f.Padding {
			for i := off; i < off+f.Length; i++ {
				truth[i] = 0
			}
		}
		off += f.Length
	}
	var pieces []byte
	for s := int64(0); s < total; s += int64(pieceLen) {
		e := s + int64(pieceLen)
		if e > total {
			e = total
		}
		h := sha1.Sum(truth[s:e])
		pieces = append(pieces, h[:]...)
	}
	info := &rc.Dict{}
	if len(files) == 1 && files[0].Path == nil {
		info.Set("length", files[0].Length)
	} else {
		var fl []rc.Value
		for _, f := range files {
			d := &rc.Dict{}
			if f.Padding {
				d.Set("attr", "p")
			}
			d.Set("length", f.Length)
			var p []rc.Value
			p = []rc.Value{}
			for _, c := range f.Path {
				p = append(p, c)
			}
			d.Set("path", p)
			fl = append(fl, d)
		}
		info.Set("files", fl)
	}
	info.Set("name", name)
	info.Set("piece length", int64(pieceLen))
	info.Set("pieces", pieces)
	top := &rc.Dict{}
	top.Set("info", info)
	if extra != nil {
		extra(top, info)
	}
	return rc.Bencode(top), truth
}

