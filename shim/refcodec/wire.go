package refcodec

import (
	"encoding/binary"
	"errors"
	"fmt"
	"net/netip"
)

// Message kinds.
const (
	KeepAlive     = "keepalive"
	Choke         = "choke"
	Unchoke       = "unchoke"
	Interested    = "interested"
	NotInterested = "notinterested"
	Have          = "have"
	Bitfield      = "bitfield"
	Request       = "request"
	Piece         = "piece"
	Cancel        = "cancel"
	Port          = "port"
	Suggest       = "suggest"
	HaveAll       = "haveall"
	HaveNone      = "havenone"
	Reject        = "reject"
	AllowedFast   = "allowedfast"
	Ext0          = "ext0"
	ExtPex        = "pex"
	ExtMetadata   = "metadata"
	ExtDontHave   = "donthave"
	ExtUploadOnly = "uploadonly"
	ExtOther      = "extother"
	Other         = "other"
)

// Peer is a PEX entry.
type Peer struct {
	Addr  netip.AddrPort
	Flags byte
}

// Msg is a decoded wire message.
type Msg struct {
	Kind                 string
	ID                   uint8 // message id (Other) / extended sub-id (Ext*)
	Index, Begin, Length uint32
	Port                 uint16
	Data                 []byte // bitfield, block, metadata block

	// extended handshake (BEP 10)
	Version      string
	HasVersion   bool
	ExtPort      uint16
	ReqQ         uint32
	IPv4, IPv6   netip.Addr
	MetadataSize uint32
	M            map[string]uint8
	HasM         bool
	UploadOnly   bool
	Encrypt      bool

	// ut_metadata (BEP 9)
	MsgType   uint8
	MPiece    uint32
	TotalSize uint32
	HasTotal  bool

	// ut_pex (BEP 11)
	Added, Dropped []Peer

	Value bool // upload_only
	Dict  *Dict // the bencoded dictionary of an extended message, if any
}

var fixedID = map[string]uint8{
	Choke: 0, Unchoke: 1, Interested: 2, NotInterested: 3, Have: 4, Bitfield: 5,
	Request: 6, Piece: 7, Cancel: 8, Port: 9, Suggest: 13, HaveAll: 14, HaveNone: 15,
	Reject: 16, AllowedFast: 17,
}

var kindOfID = func() map[uint8]string {
	m := map[uint8]string{}
	for k, v := range fixedID {
		m[v] = k
	}
	return m
}()

func be32(v uint32) []byte { return binary.BigEndian.AppendUint32(nil, v) }

func frame(body []byte) []byte {
	return append(be32(uint32(len(body))), body...)
}

// EncodeOpts selects among equivalent encodings of extended messages.
type EncodeOpts struct {
	OmitZero bool // leave out zero-valued optional keys of the extended handshake
}

// Encode returns the frame (length prefix included) for m.
func Encode(m Msg, o EncodeOpts) []byte {
	switch m.Kind {
	case KeepAlive:
		return []byte{0, 0, 0, 0}
	case Choke, Unchoke, Interested, NotInterested, HaveAll, HaveNone:
		return frame([]byte{fixedID[m.Kind]})
	case Have, Suggest, AllowedFast:
		return frame(append([]byte{fixedID[m.Kind]}, be32(m.Index)...))
	case Bitfield:
		return frame(append([]byte{5}, m.Data...))
	case Request, Cancel, Reject:
		b := []byte{fixedID[m.Kind]}
		b = append(b, be32(m.Index)...)
		b = append(b, be32(m.Begin)...)
		b = append(b, be32(m.Length)...)
		return frame(b)
	case Piece:
		b := []byte{7}
		b = append(b, be32(m.Index)...)
		b = append(b, be32(m.Begin)...)
		b = append(b, m.Data...)
		return frame(b)
	case Port:
		return frame([]byte{9, byte(m.Port >> 8), byte(m.Port)})
	case Ext0:
		d := &Dict{}
		if m.HasM || len(m.M) > 0 || !o.OmitZero {
			md := &Dict{}
			for k, v := range m.M {
				md.Set(k, int64(v))
			}
			d.Set("m", md)
		}
		if m.Version != "" || !o.OmitZero {
			d.Set("v", m.Version)
		}
		if m.ExtPort != 0 || !o.OmitZero {
			d.Set("p", int64(m.ExtPort))
		}
		if m.ReqQ != 0 || !o.OmitZero {
			d.Set("reqq", int64(m.ReqQ))
		}
		if m.MetadataSize != 0 || !o.OmitZero {
			d.Set("metadata_size", int64(m.MetadataSize))
		}
		if m.IPv4.IsValid() {
			a := m.IPv4.As4()
			d.Set("ipv4", a[:])
		}
		if m.IPv6.IsValid() {
			a := m.IPv6.As16()
			d.Set("ipv6", a[:])
		}
		if m.UploadOnly || !o.OmitZero {
			d.Set("upload_only", b2i(m.UploadOnly))
		}
		if m.Encrypt || !o.OmitZero {
			d.Set("e", b2i(m.Encrypt))
		}
		return frame(append([]byte{20, 0}, Bencode(d)...))
	case ExtMetadata:
		d := &Dict{}
		d.Set("msg_type", int64(m.MsgType))
		d.Set("piece", int64(m.MPiece))
		if m.HasTotal || m.TotalSize != 0 {
			d.Set("total_size", int64(m.TotalSize))
		}
		b := append([]byte{20, m.ID}, Bencode(d)...)
		return frame(append(b, m.Data...))
	case ExtPex:
		d := &Dict{}
		a4, f4, a6, f6 := compact(m.Added)
		d4, _, d6, _ := compact(m.Dropped)
		if len(a4) > 0 || !o.OmitZero {
			d.Set("added", a4)
			d.Set("added.f", f4)
		}
		if len(a6) > 0 || !o.OmitZero {
			d.Set("added6", a6)
			d.Set("added6.f", f6)
		}
		if len(d4) > 0 || !o.OmitZero {
			d.Set("dropped", d4)
		}
		if len(d6) > 0 || !o.OmitZero {
			d.Set("dropped6", d6)
		}
		return frame(append([]byte{20, m.ID}, Bencode(d)...))
	case ExtDontHave:
		return frame(append([]byte{20, m.ID}, be32(m.Index)...))
	case ExtUploadOnly:
		return frame([]byte{20, m.ID, byte(b2i(m.Value))})
	case ExtOther:
		return frame(append([]byte{20, m.ID}, m.Data...))
	case Other:
		return frame(append([]byte{m.ID}, m.Data...))
	}
	panic("refcodec: cannot encode kind " + m.Kind)
}

func b2i(b bool) int64 {
	if b {
		return 1
	}
	return 0
}

func compact(ps []Peer) (a4, f4, a6, f6 []byte) {
	a4, f4, a6, f6 = []byte{}, []byte{}, []byte{}, []byte{}
	for _, p := range ps {
		ip := p.Addr.Addr()
		if ip.Is4() {
			x := ip.As4()
			a4 = append(a4, x[:]...)
			a4 = append(a4, byte(p.Addr.Port()>>8), byte(p.Addr.Port()))
			f4 = append(f4, p.Flags)
		} else {
			x := ip.As16()
			a6 = append(a6, x[:]...)
			a6 = append(a6, byte(p.Addr.Port()>>8), byte(p.Addr.Port()))
			f6 = append(f6, p.Flags)
		}
	}
	return
}

// ExtIDs tells Decode which extended sub-ids the *receiver* of the frame
// assigned to which extension (BEP 10: the sender uses the receiver's ids).
type ExtIDs struct {
	Pex, Metadata, DontHave, UploadOnly uint8
}

var ErrFrame = errors.New("refcodec: malformed frame")

// Decode decodes one complete frame (length prefix included) strictly.  It
// returns ErrFrame for anything a conforming peer would not send.
func Decode(frameBytes []byte, ids ExtIDs) (Msg, error) {
	if len(frameBytes) < 4 {
		return Msg{}, ErrFrame
	}
	l := binary.BigEndian.Uint32(frameBytes)
	if uint64(l) != uint64(len(frameBytes)-4) {
		return Msg{}, ErrFrame
	}
	if l == 0 {
		return Msg{Kind: KeepAlive}, nil
	}
	id := frameBytes[4]
	b := frameBytes[5:]
	u32 := func(i int) uint32 { return binary.BigEndian.Uint32(b[i:]) }
	switch id {
	case 0, 1, 2, 3, 14, 15:
		if len(b) != 0 {
			return Msg{}, ErrFrame
		}
		return Msg{Kind: kindOfID[id]}, nil
	case 4, 13, 17:
		if len(b) != 4 {
			return Msg{}, ErrFrame
		}
		return Msg{Kind: kindOfID[id], Index: u32(0)}, nil
	case 5:
		return Msg{Kind: Bitfield, Data: append([]byte{}, b...)}, nil
	case 6, 8, 16:
		if len(b) != 12 {
			return Msg{}, ErrFrame
		}
		return Msg{Kind: kindOfID[id], Index: u32(0), Begin: u32(4), Length: u32(8)}, nil
	case 7:
		if len(b) < 8 {
			return Msg{}, ErrFrame
		}
		return Msg{Kind: Piece, Index: u32(0), Begin: u32(4), Data: append([]byte{}, b[8:]...)}, nil
	case 9:
		if len(b) != 2 {
			return Msg{}, ErrFrame
		}
		return Msg{Kind: Port, Port: uint16(b[0])<<8 | uint16(b[1])}, nil
	case 20:
		if len(b) < 1 {
			return Msg{}, ErrFrame
		}
		sub := b[0]
		p := b[1:]
		switch {
		case sub == 0:
			v, n, err := decodeAt(p, 0, 0)
			if err != nil {
				return Msg{}, ErrFrame
			}
			_ = n // BEP 10 does not forbid trailing bytes; they are ignored
			d, ok := v.(*Dict)
			if !ok {
				return Msg{}, ErrFrame
			}
			if !sortedDeep(d) {
				return Msg{}, ErrFrame
			}
			m := Msg{Kind: Ext0, Dict: d}
			if x, ok := d.Get("v"); ok {
				s, ok := x.([]byte)
				if !ok {
					return Msg{}, ErrFrame
				}
				m.Version, m.HasVersion = string(s), true
			}
			var err2 error
			geti := func(k string, max int64) int64 {
				x, ok := d.Get(k)
				if !ok {
					return 0
				}
				n, ok := x.(int64)
				if !ok || n < 0 || n > max {
					err2 = ErrFrame
					return 0
				}
				return n
			}
			m.ExtPort = uint16(geti("p", 65535))
			m.ReqQ = uint32(geti("reqq", 1<<32-1))
			m.MetadataSize = uint32(geti("metadata_size", 1<<32-1))
			if x, ok := d.Get("upload_only"); ok {
				m.UploadOnly, ok = boolish(x)
				if !ok {
					err2 = ErrFrame
				}
			}
			if x, ok := d.Get("e"); ok {
				m.Encrypt, ok = boolish(x)
				if !ok {
					err2 = ErrFrame
				}
			}
			if x, ok := d.Get("ipv4"); ok {
				s, ok := x.([]byte)
				if !ok {
					err2 = ErrFrame
				} else if a, ok := netip.AddrFromSlice(s); ok && a.Is4() {
					m.IPv4 = a
				}
			}
			if x, ok := d.Get("ipv6"); ok {
				s, ok := x.([]byte)
				if !ok {
					err2 = ErrFrame
				} else if a, ok := netip.AddrFromSlice(s); ok && a.Is6() {
					m.IPv6 = a
				}
			}
			if x, ok := d.Get("m"); ok {
				md, ok := x.(*Dict)
				if !ok {
					return Msg{}, ErrFrame
				}
				m.HasM = true
				m.M = map[string]uint8{}
				for i, k := range md.Keys {
					n, ok := md.Vals[i].(int64)
					if !ok || n < 0 || n > 255 {
						return Msg{}, ErrFrame
					}
					m.M[k] = uint8(n)
				}
			}
			if err2 != nil {
				return Msg{}, err2
			}
			return m, nil
		case sub == ids.Metadata && sub != 0:
			v, n, err := decodeAt(p, 0, 0)
			if err != nil {
				return Msg{}, ErrFrame
			}
			d, ok := v.(*Dict)
			if !ok {
				return Msg{}, ErrFrame
			}
			if !sortedDeep(d) {
				return Msg{}, ErrFrame
			}
			m := Msg{Kind: ExtMetadata, ID: sub, Dict: d}
			t, ok1 := d.Get("msg_type")
			pc, ok2 := d.Get("piece")
			ti, ok3 := t.(int64)
			pi, ok4 := pc.(int64)
			if !ok1 || !ok2 || !ok3 || !ok4 || ti < 0 || ti > 255 || pi < 0 || pi > 1<<32-1 {
				return Msg{}, ErrFrame
			}
			m.MsgType, m.MPiece = uint8(ti), uint32(pi)
			if x, ok := d.Get("total_size"); ok {
				n, ok := x.(int64)
				if !ok || n < 0 || n > 1<<32-1 {
					return Msg{}, ErrFrame
				}
				m.TotalSize, m.HasTotal = uint32(n), true
			}
			m.Data = append([]byte{}, p[n:]...)
			return m, nil
		case sub == ids.Pex && sub != 0:
			v, _, err := decodeAt(p, 0, 0)
			if err != nil {
				return Msg{}, ErrFrame
			}
			d, ok := v.(*Dict)
			if !ok {
				return Msg{}, ErrFrame
			}
			if !sortedDeep(d) {
				return Msg{}, ErrFrame
			}
			m := Msg{Kind: ExtPex, ID: sub, Dict: d}
			gs := func(k string) ([]byte, bool) {
				x, ok := d.Get(k)
				if !ok {
					return nil, true
				}
				s, ok := x.([]byte)
				return s, ok
			}
			a4, o1 := gs("added")
			f4, o2 := gs("added.f")
			a6, o3 := gs("added6")
			f6, o4 := gs("added6.f")
			d4, o5 := gs("dropped")
			d6, o6 := gs("dropped6")
			if !(o1 && o2 && o3 && o4 && o5 && o6) {
				return Msg{}, ErrFrame
			}
			var e1, e2, e3, e4 error
			var x []Peer
			x, e1 = uncompact(a4, f4, 4)
			m.Added = append(m.Added, x...)
			x, e2 = uncompact(a6, f6, 16)
			m.Added = append(m.Added, x...)
			x, e3 = uncompact(d4, nil, 4)
			m.Dropped = append(m.Dropped, x...)
			x, e4 = uncompact(d6, nil, 16)
			m.Dropped = append(m.Dropped, x...)
			if e1 != nil || e2 != nil || e3 != nil || e4 != nil {
				return Msg{}, ErrFrame
			}
			return m, nil
		case sub == ids.DontHave && sub != 0:
			if len(p) != 4 {
				return Msg{}, ErrFrame
			}
			return Msg{Kind: ExtDontHave, ID: sub, Index: binary.BigEndian.Uint32(p)}, nil
		case sub == ids.UploadOnly && sub != 0:
			if len(p) != 1 || p[0] > 1 {
				return Msg{}, ErrFrame
			}
			return Msg{Kind: ExtUploadOnly, ID: sub, Value: p[0] == 1}, nil
		}
		return Msg{Kind: ExtOther, ID: sub, Data: append([]byte{}, p...)}, nil
	}
	return Msg{Kind: Other, ID: id, Data: append([]byte{}, b...)}, nil
}

func boolish(x Value) (bool, bool) {
	switch v := x.(type) {
	case int64:
		return v != 0, true
	case []byte:
		if string(v) == "0" {
			return false, true
		}
		if string(v) == "1" {
			return true, true
		}
	}
	return false, false
}

func uncompact(a, f []byte, l int) ([]Peer, error) {
	if len(a)%(l+2) != 0 {
		return nil, fmt.Errorf("bad compact length %d", len(a))
	}
	var out []Peer
	for i := 0; i*(l+2) < len(a); i++ {
		ip, _ := netip.AddrFromSlice(a[i*(l+2) : i*(l+2)+l])
		port := uint16(a[i*(l+2)+l])<<8 | uint16(a[i*(l+2)+l+1])
		var fl byte
		if i < len(f) {
			fl = f[i]
		}
		out = append(out, Peer{netip.AddrPortFrom(ip, port), fl})
	}
	return out, nil
}

// Split cuts a byte stream into complete frames; it returns the frames and the
// number of bytes consumed.
func Split(b []byte) ([][]byte, int) {
	var out [][]byte
	i := 0
	for len(b)-i >= 4 {
		l := int(binary.BigEndian.Uint32(b[i:]))
		if l > 1<<24 || len(b)-i-4 < l {
			break
		}
		out = append(out, b[i:i+4+l])
		i += 4 + l
	}
	return out, i
}

// StorrentIDs are the sub-ids storrent assigns for reception.
var StorrentIDs = ExtIDs{Pex: 1, Metadata: 2, DontHave: 3, UploadOnly: 4}
