// Package refcodec is an independent implementation of the BitTorrent wire
// format (BEP 3, 5, 6, 9, 10, 11, lt_donthave, upload_only) and of bencoding,
// written from the specifications.  It shares no code with storrent's
// protocol/pex packages nor with zeebo/bencode, and serves as the reference
// model of the C04/C06/C11/C16 oracles.
package refcodec

import (
	"errors"
	"fmt"
	"sort"
	"strconv"
)

// Value is a bencoded value: int64, []byte, []Value or *Dict.
type Value any

// Dict keeps the keys in the order they appeared.
type Dict struct {
	Keys []string
	Vals []Value
	// span of each value in the input (Decode only)
	Start, End []int
}

func (d *Dict) Get(k string) (Value, bool) {
	if d == nil {
		return nil, false
	}
	for i, kk := range d.Keys {
		if kk == k {
			return d.Vals[i], true
		}
	}
	return nil, false
}

func (d *Dict) Span(k string) (int, int, bool) {
	for i, kk := range d.Keys {
		if kk == k && i < len(d.Start) {
			return d.Start[i], d.End[i], true
		}
	}
	return 0, 0, false
}

func (d *Dict) Set(k string, v Value) {
	for i, kk := range d.Keys {
		if kk == k {
			d.Vals[i] = v
			return
		}
	}
	d.Keys = append(d.Keys, k)
	d.Vals = append(d.Vals, v)
}

// Sorted reports whether keys are strictly increasing (canonical form).
func (d *Dict) Sorted() bool {
	for i := 1; i < len(d.Keys); i++ {
		if d.Keys[i-1] >= d.Keys[i] {
			return false
		}
	}
	return true
}

// Bencode bencodes v.  Dict keys are emitted sorted unless keepOrder is set.
func Bencode(v Value) []byte { return appendValue(nil, v, false) }

// EncodeKeepOrder bencodes v keeping dictionary keys in their given order
// (used to build non-canonical inputs).
func BencodeKeepOrder(v Value) []byte { return appendValue(nil, v, true) }

func appendValue(b []byte, v Value, keep bool) []byte {
	switch x := v.(type) {
	case int:
		return append(append(append(b, 'i'), strconv.FormatInt(int64(x), 10)...), 'e')
	case int64:
		return append(append(append(b, 'i'), strconv.FormatInt(x, 10)...), 'e')
	case uint64:
		return append(append(append(b, 'i'), strconv.FormatUint(x, 10)...), 'e')
	case RawInt:
		return append(append(append(b, 'i'), string(x)...), 'e')
	case Raw:
		return append(b, x...)
	case string:
		return append(append(append(b, strconv.Itoa(len(x))...), ':'), x...)
	case []byte:
		return append(append(append(b, strconv.Itoa(len(x))...), ':'), x...)
	case []Value:
		b = append(b, 'l')
		for _, e := range x {
			b = appendValue(b, e, keep)
		}
		return append(b, 'e')
	case *Dict:
		idx := make([]int, len(x.Keys))
		for i := range idx {
			idx[i] = i
		}
		if !keep {
			sort.SliceStable(idx, func(a, c int) bool { return x.Keys[idx[a]] < x.Keys[idx[c]] })
		}
		b = append(b, 'd')
		for _, i := range idx {
			b = appendValue(b, x.Keys[i], keep)
			b = appendValue(b, x.Vals[i], keep)
		}
		return append(b, 'e')
	case nil:
		return b
	}
	panic(fmt.Sprintf("refcodec: cannot encode %T", v))
}

// RawInt is an integer given by its digits (to build non-canonical or
// overflowing integers).
type RawInt string

// Raw is emitted verbatim.
type Raw []byte

var ErrSyntax = errors.New("refcodec: bencode syntax error")

// Decode parses exactly one value from the front of b and returns it together
// with the number of bytes it occupies.  Strict: integers must be canonical
// and fit in int64, string lengths must be canonical.  Dictionary key order is
// preserved (use Dict.Sorted to test canonicity).
func Bdecode(b []byte) (Value, int, error) {
	v, n, err := decodeAt(b, 0, 0)
	return v, n, err
}

func decodeAt(b []byte, i int, depth int) (Value, int, error) {
	if depth > 2000 {
		return nil, i, errors.New("refcodec: nesting too deep")
	}
	if i >= len(b) {
		return nil, i, ErrSyntax
	}
	switch c := b[i]; {
	case c == 'i':
		j := i + 1
		for j < len(b) && b[j] != 'e' {
			j++
		}
		if j >= len(b) {
			return nil, i, ErrSyntax
		}
		s := string(b[i+1 : j])
		if !canonicalInt(s) {
			return nil, i, ErrSyntax
		}
		n, err := strconv.ParseInt(s, 10, 64)
		if err != nil {
			return nil, i, ErrSyntax
		}
		return n, j + 1, nil
	case c >= '0' && c <= '9':
		j := i
		for j < len(b) && b[j] != ':' {
			if b[j] < '0' || b[j] > '9' {
				return nil, i, ErrSyntax
			}
			j++
		}
		if j >= len(b) {
			return nil, i, ErrSyntax
		}
		s := string(b[i:j])
		if len(s) > 1 && s[0] == '0' {
			return nil, i, ErrSyntax
		}
		n, err := strconv.ParseInt(s, 10, 63)
		if err != nil || n > int64(len(b)-j-1) {
			return nil, i, ErrSyntax
		}
		return append([]byte{}, b[j+1:j+1+int(n)]...), j + 1 + int(n), nil
	case c == 'l':
		var l []Value
		l = []Value{}
		j := i + 1
		for {
			if j >= len(b) {
				return nil, i, ErrSyntax
			}
			if b[j] == 'e' {
				return l, j + 1, nil
			}
			v, k, err := decodeAt(b, j, depth+1)
			if err != nil {
				return nil, i, err
			}
			l = append(l, v)
			j = k
		}
	case c == 'd':
		d := &Dict{}
		j := i + 1
		for {
			if j >= len(b) {
				return nil, i, ErrSyntax
			}
			if b[j] == 'e' {
				return d, j + 1, nil
			}
			if b[j] < '0' || b[j] > '9' {
				return nil, i, ErrSyntax
			}
			kv, k, err := decodeAt(b, j, depth+1)
			if err != nil {
				return nil, i, err
			}
			v, k2, err := decodeAt(b, k, depth+1)
			if err != nil {
				return nil, i, err
			}
			d.Keys = append(d.Keys, string(kv.([]byte)))
			d.Vals = append(d.Vals, v)
			d.Start = append(d.Start, k)
			d.End = append(d.End, k2)
			j = k2
		}
	}
	return nil, i, ErrSyntax
}

func canonicalInt(s string) bool {
	if s == "" || s == "-" || s == "-0" {
		return false
	}
	t := s
	if t[0] == '-' {
		t = t[1:]
	}
	if len(t) > 1 && t[0] == '0' {
		return false
	}
	for _, c := range t {
		if c < '0' || c > '9' {
			return false
		}
	}
	return true
}

// Canonical reports whether b is exactly one canonically encoded value:
// strict syntax, all dictionaries sorted with unique keys, nothing trailing.
func Canonical(b []byte) bool {
	v, n, err := Bdecode(b)
	if err != nil || n != len(b) {
		return false
	}
	return sortedDeep(v)
}

func sortedDeep(v Value) bool {
	switch x := v.(type) {
	case []Value:
		for _, e := range x {
			if !sortedDeep(e) {
				return false
			}
		}
	case *Dict:
		if !x.Sorted() {
			return false
		}
		for _, e := range x.Vals {
			if !sortedDeep(e) {
				return false
			}
		}
	}
	return true
}
