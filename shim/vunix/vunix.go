// Package vunix stands in for golang.org/x/sys/unix in alloc/alloc_unix.go:
// it passes Mmap/Munmap through to the real calls, keeps a table of the live
// mappings, and lets a harness decide which Mmap calls fail (fault enumeration
// on the allocation path of the piece store).
package vunix

import (
	"sync"

	"golang.org/x/sys/unix"
)

const (
	PROT_READ     = unix.PROT_READ
	PROT_WRITE    = unix.PROT_WRITE
	MAP_PRIVATE   = unix.MAP_PRIVATE
	MAP_ANONYMOUS = unix.MAP_ANONYMOUS
)

var (
	mu       sync.Mutex
	calls    int
	failAt   map[int]bool
	live     = map[*byte]int{}
	liveB    int64
	problems []string
	failed   int
)

// Reset clears the fault plan and the problem list (live mappings are kept:
// they belong to whoever mapped them).
func Reset(fail ...int) {
	mu.Lock()
	defer mu.Unlock()
	calls = 0
	failed = 0
	failAt = map[int]bool{}
	for _, f := range fail {
		failAt[f] = true
	}
	problems = nil
}

// Calls returns the number of Mmap calls since Reset, and how many were failed.
func Calls() (int, int) {
	mu.Lock()
	defer mu.Unlock()
	return calls, failed
}

// Live returns the number and total size of the live mappings.
func Live() (int, int64) {
	mu.Lock()
	defer mu.Unlock()
	return len(live), liveB
}

// Problems returns what went wrong since Reset (unmapping something that is
// not mapped, a failing munmap).
func Problems() []string {
	mu.Lock()
	defer mu.Unlock()
	return append([]string{}, problems...)
}

func Mmap(fd int, offset int64, length int, prot int, flags int) ([]byte, error) {
	mu.Lock()
	k := calls
	calls++
	if failAt[k] {
		failed++
		mu.Unlock()
		return nil, unix.ENOMEM
	}
	mu.Unlock()
	p, err := unix.Mmap(fd, offset, length, prot, flags)
	if err == nil && len(p) > 0 {
		mu.Lock()
		live[&p[0]] = cap(p)
		liveB += int64(cap(p))
		mu.Unlock()
	}
	return p, err
}

func Munmap(b []byte) error {
	mu.Lock()
	if cap(b) == 0 {
		problems = append(problems, "munmap of an empty slice")
		mu.Unlock()
		return unix.EINVAL
	}
	b = b[:cap(b)]
	n, ok := live[&b[0]]
	if !ok {
		problems = append(problems, "munmap of a buffer that is not (or no longer) mapped")
		mu.Unlock()
		return unix.EINVAL
	}
	delete(live, &b[0])
	liveB -= int64(n)
	mu.Unlock()
	err := unix.Munmap(b)
	if err != nil {
		mu.Lock()
		problems = append(problems, "munmap failed: "+err.Error())
		mu.Unlock()
	}
	return err
}
