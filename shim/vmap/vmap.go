// Package vmap makes the iteration order of the few map range loops in the
// torrent's scheduler a decision of the harness: tools/mkoverlay rewrites
//
//	for k, v := range m {        into        for _, k := range vmap.Keys(m) { v := m[k]
//
// (same line, so line numbers are kept).  Keys returns the keys in ascending
// order, or descending when the harness says so; Go's own order is random per
// loop and cannot be replayed.
package vmap

import (
	"cmp"
	"slices"
	"sync/atomic"
)

var descending atomic.Bool

// SetDescending selects the order for subsequent loops.
func SetDescending(d bool) { descending.Store(d) }

func Keys[K cmp.Ordered, V any](m map[K]V) []K {
	ks := make([]K, 0, len(m))
	for k := range m {
		ks = append(ks, k)
	}
	slices.Sort(ks)
	if descending.Load() {
		slices.Reverse(ks)
	}
	return ks
}
