// Package sched is a cooperative, controlled scheduler for lock-based code
// (engine A of /verif/DESIGN.md).  Logical threads are goroutines that run only
// while they hold the single token; every synchronisation operation of the code
// under test (routed here by the vsync/vatomic/vtime shims) is a scheduling
// point at which the explorer decides which thread runs next.
package sched

import (
	"fmt"
	"runtime/debug"
	"strings"
	"sync"
	"sync/atomic"
)

// Mode tells a shim what to do with an operation.
type Mode int

const (
	Real     Mode = iota // no controlled run: perform the real operation
	Model                // controlled run: operate on the model state
	Aborting             // execution is being torn down: do nothing
)

type thread struct {
	id       int
	name     string
	wake     chan struct{}
	enabled  func() bool // is the pending operation enabled?
	desc     string
	done     bool
	started  bool
	sleeping bool
	sleepAt  int
	hist     uint64 // hash of the thread's own operation/observation history
}

// Point is one recorded choice point (a point with more than one enabled thread).
type Point struct {
	Enabled    []int // thread ids in canonical order
	Chosen     int   // index into Enabled
	CurEnabled bool  // the running thread was still enabled (switching away is a preemption)
	Polling    []bool // Enabled[i] is parked in a polling Sleep (choosing it over a non-polling thread is unfair)
}

// S is one controlled execution.
type S struct {
	threads  []*thread
	cur      *thread
	prefix   []int
	Points   []Point
	Steps    int
	MaxSteps int
	epoch    int

	mu       sync.Mutex // protects Failure/abort during teardown only
	abort    atomic.Bool
	Failure  string
	live     int32
	finished chan struct{}
	running  atomic.Bool

	// Trace, when non-nil, receives a line per executed operation.
	Trace *[]string
	quiet int
	// OnStep, when set, runs at every scheduling point, on the thread that was
	// given the token, just before its operation executes.
	OnStep func()
	// KeyFn, when set, returns a canonical key of the shared state; used by
	// the unbounded explorer for state-key pruning.
	KeyFn func() string
	// pruning
	visited map[string]bool
	Pruned  bool
}

var active atomic.Pointer[S]

type abortSentinel struct{}

// New creates an execution that replays prefix and then follows default choices.
func New(prefix []int) *S {
	return &S{prefix: prefix, MaxSteps: 20000, finished: make(chan struct{})}
}

// Go registers a logical thread.  Must be called before Run.
func (s *S) Go(name string, fn func()) {
	t := &thread{id: len(s.threads), name: name, wake: make(chan struct{}, 1)}
	t.enabled = func() bool { return true }
	t.desc = "start"
	s.threads = append(s.threads, t)
	atomic.AddInt32(&s.live, 1)
	go func() {
		defer func() {
			r := recover()
			if r != nil {
				if _, ok := r.(abortSentinel); !ok {
					s.failf("panic in thread %s: %v\n%s", t.name, r, trimStack(debug.Stack()))
				}
			}
			t.done = true
			if !s.abort.Load() {
				// normal completion: hand the token on
				s.next(t, true)
			}
			if atomic.AddInt32(&s.live, -1) == 0 {
				close(s.finished)
			}
		}()
		<-t.wake
		if s.abort.Load() {
			panic(abortSentinel{})
		}
		t.started = true
		fn()
	}()
}

func trimStack(b []byte) string {
	lines := strings.Split(string(b), "\n")
	var keep []string
	for _, l := range lines {
		if strings.Contains(l, "zzverif/sched") || strings.Contains(l, "runtime/") || strings.Contains(l, "panic(") {
			continue
		}
		keep = append(keep, l)
		if len(keep) > 24 {
			break
		}
	}
	return strings.Join(keep, "\n")
}

// Run executes all registered threads to completion under the schedule.
func (s *S) Run() {
	if len(s.threads) == 0 {
		return
	}
	if !active.CompareAndSwap(nil, s) {
		panic("sched: nested controlled run")
	}
	s.running.Store(true)
	s.next(nil, true)
	<-s.finished
	s.running.Store(false)
	active.Store(nil)
}

func (s *S) failf(format string, a ...any) {
	s.mu.Lock()
	if s.Failure == "" {
		s.Failure = fmt.Sprintf(format, a...)
	}
	first := !s.abort.Swap(true)
	s.mu.Unlock()
	if first {
		for _, t := range s.threads {
			select {
			case t.wake <- struct{}{}:
			default:
			}
		}
	}
}

// enabledList returns the enabled threads in canonical order: the running
// thread first if it is still enabled, then ascending ids.
func (s *S) enabledList(cur *thread) ([]*thread, bool) {
	var en []*thread
	curEnabled := false
	// Fairness: a thread parked in a polling Sleep has lower priority than
	// every thread that is not polling, so the default schedule cannot starve
	// the thread the pollers are waiting for.
	if cur != nil && !cur.done && !cur.sleeping && s.isEnabled(cur) {
		en = append(en, cur)
		curEnabled = true
	}
	for _, t := range s.threads {
		if t == cur || t.done || t.sleeping {
			continue
		}
		if s.isEnabled(t) {
			en = append(en, t)
		}
	}
	for _, t := range s.threads {
		if t.done || !t.sleeping {
			continue
		}
		if s.isEnabled(t) {
			en = append(en, t)
		}
	}
	return en, curEnabled
}

func (s *S) isEnabled(t *thread) bool {
	if t.sleeping {
		return s.epoch > t.sleepAt
	}
	return t.enabled()
}

// next picks the next thread to run.  cur is the thread giving up the token
// (nil at start).  If cur is picked again the function simply returns.
func (s *S) next(cur *thread, mayFinish bool) {
	en, curEnabled := s.enabledList(cur)
	if len(en) == 0 {
		alldone := true
		var stuck []string
		for _, t := range s.threads {
			if !t.done {
				alldone = false
				kind := "blocked"
				if t.sleeping {
					kind = "polling"
				}
				stuck = append(stuck, fmt.Sprintf("%s %s at %s", t.name, kind, t.desc))
			}
		}
		if alldone {
			return
		}
		allSleep := true
		for _, t := range s.threads {
			if !t.done && !t.sleeping {
				allSleep = false
			}
		}
		if allSleep {
			s.failf("livelock: %s", strings.Join(stuck, "; "))
		} else {
			s.failf("deadlock: %s", strings.Join(stuck, "; "))
		}
		if cur != nil && !cur.done {
			panic(abortSentinel{})
		}
		return
	}
	idx := 0
	if len(en) > 1 {
		var stateKey string
		if s.KeyFn != nil && s.visited != nil && len(s.Points) >= len(s.prefix) {
			s.quiet++
			stateKey = s.KeyFn()
			s.quiet--
		}
		if stateKey != "" {
			// state-key pruning: a (state, pending-ops) pair already expanded
			// elsewhere has the same futures.
			var sb strings.Builder
			sb.WriteString(stateKey)
			for _, t := range s.threads {
				fmt.Fprintf(&sb, "|%d:%v:%s:%v:%x", t.id, t.done, t.desc, t.sleeping, t.hist)
			}
			if cur != nil {
				fmt.Fprintf(&sb, "|cur=%d", cur.id)
			}
			k := sb.String()
			if s.visited[k] {
				s.Pruned = true
				s.failf("pruned")
				if cur != nil && !cur.done {
					panic(abortSentinel{})
				}
				return
			}
			s.visited[k] = true
		}
		n := len(s.Points)
		if n < len(s.prefix) {
			idx = s.prefix[n]
			if idx >= len(en) {
				s.failf("REPLAY-DIVERGENCE: choice %d of %d out of range at point %d", idx, len(en), n)
				if cur != nil && !cur.done {
					panic(abortSentinel{})
				}
				return
			}
		}
		ids := make([]int, len(en))
		pol := make([]bool, len(en))
		for i, t := range en {
			ids[i] = t.id
			pol[i] = t.sleeping
		}
		s.Points = append(s.Points, Point{Enabled: ids, Chosen: idx, CurEnabled: curEnabled, Polling: pol})
	}
	nx := en[idx]
	if nx.sleeping {
		nx.sleeping = false
	}
	s.cur = nx
	if nx == cur {
		return
	}
	nx.wake <- struct{}{}
	if cur != nil && !cur.done {
		<-cur.wake
		if s.abort.Load() {
			panic(abortSentinel{})
		}
	}
}

// Yield is called by a shim *before* a synchronisation operation.  enabled
// reports whether the operation can proceed in the current model state.  When
// Yield returns Model the calling thread holds the token and the operation is
// enabled; the caller must perform it on the model state immediately.
func Yield(desc string, enabled func() bool) Mode {
	s := active.Load()
	if s == nil || !s.running.Load() {
		return Real
	}
	if s.abort.Load() {
		return Aborting
	}
	if s.quiet > 0 {
		return Real
	}
	t := s.cur
	s.Steps++
	if s.Steps > s.MaxSteps {
		s.failf("horizon: more than %d steps", s.MaxSteps)
		panic(abortSentinel{})
	}
	if enabled == nil {
		enabled = func() bool { return true }
	}
	t.enabled = enabled
	t.desc = desc
	t.hist = mix(t.hist, desc)
	s.next(t, false)
	s.epoch++
	if s.OnStep != nil {
		s.quiet++
		s.OnStep()
		s.quiet--
	}
	if s.Trace != nil {
		*s.Trace = append(*s.Trace, fmt.Sprintf("%s: %s", t.name, desc))
	}
	return Model
}

// Sleep is a polling wait: the thread is parked until some other thread has
// executed at least one operation.
func Sleep(desc string) Mode {
	s := active.Load()
	if s == nil || !s.running.Load() {
		return Real
	}
	if s.abort.Load() {
		return Aborting
	}
	if s.quiet > 0 {
		return Real
	}
	t := s.cur
	s.Steps++
	if s.Steps > s.MaxSteps {
		s.failf("horizon: more than %d steps", s.MaxSteps)
		panic(abortSentinel{})
	}
	t.sleeping = true
	t.sleepAt = s.epoch
	t.desc = desc
	t.hist = mix(t.hist, desc)
	t.enabled = func() bool { return true }
	s.next(t, false)
	s.epoch++
	if s.OnStep != nil {
		s.quiet++
		s.OnStep()
		s.quiet--
	}
	if s.Trace != nil {
		*s.Trace = append(*s.Trace, fmt.Sprintf("%s: %s", t.name, desc))
	}
	return Model
}

// Controlled reports whether a controlled execution is in progress.
func Controlled() bool {
	s := active.Load()
	return s != nil && s.running.Load() && !s.abort.Load()
}

// CurrentName returns the name of the running logical thread ("" if none).
func CurrentName() string {
	s := active.Load()
	if s == nil || s.cur == nil {
		return ""
	}
	return s.cur.name
}

// Choices returns the choice list of the execution so far.
func (s *S) Choices() []int {
	c := make([]int, len(s.Points))
	for i, p := range s.Points {
		c[i] = p.Chosen
	}
	return c
}

func mix(h uint64, s string) uint64 {
	if h == 0 {
		h = 14695981039346656037
	}
	for i := 0; i < len(s); i++ {
		h ^= uint64(s[i])
		h *= 1099511628211
	}
	h ^= 0xff
	h *= 1099511628211
	return h
}

// Observe folds a value the running thread has just observed (the result of
// an atomic load, say) into its history hash, so that state-key pruning never
// merges two executions in which a thread has seen different values.
func Observe(v any) {
	s := active.Load()
	if s == nil || !s.running.Load() || s.abort.Load() || s.cur == nil {
		return
	}
	s.cur.hist = mix(s.cur.hist, fmt.Sprint(v))
}

// SetVisited installs the shared visited set used for state-key pruning.
func (s *S) SetVisited(m map[string]bool) { s.visited = m }

// Quiet runs f on the current thread with scheduling points disabled: harness
// code (oracles, state dumps) may call instrumented functions without creating
// choice points.
func Quiet(f func()) {
	s := active.Load()
	if s == nil || !s.running.Load() {
		f()
		return
	}
	s.quiet++
	defer func() { s.quiet-- }()
	f()
}
