package sched

import (
	"fmt"
	"time"
)

// Program builds a fresh instance of the scenario on s (registering its
// threads with s.Go) and returns the oracle to run once the execution is over.
// The oracle returns "" if the property held on this execution; complete is
// false when the execution was cut short by state-key pruning (only prefix-safe
// clauses may then be judged).
type Program func(s *S) (check func(complete bool) string)

// Violation is one failing execution.
type Violation struct {
	Choices []int
	Message string
}

// Stats summarises an exploration.
type Stats struct {
	Schedules   int
	Points      int // choice points met in total
	Steps       int
	MaxPoints   int
	Pruned      int
	BoundDone   int  // largest preemption bound completed (-1 = unbounded)
	Exhaustive  bool // false if the deadline or the schedule cap stopped the search
	Violations  []Violation
	Outcomes    map[string]int
	Divergences int
}

// Options configures Explore.
type Options struct {
	Bound         int // preemption bound; <0 = unbounded
	// PollBound limits, in unbounded mode, how often a schedule may run a
	// thread parked in a polling Sleep although a non-polling thread is
	// enabled (an unfair choice; without a limit the schedule tree of a
	// polling loop is infinite).  In bounded mode such a choice simply costs
	// one preemption.  Default 2.
	PollBound int
	Prune         bool
	Deadline      time.Time
	MaxSchedules  int
	MaxViolations int
	MaxSteps      int
	// Outcome, if set, is called after every execution to classify it (for
	// the distinct-outcome count that makes vacuous exploration visible).
	Outcome func() string
}

// Explore runs the DFS of DESIGN §1.3 over prog.
func Explore(prog Program, o Options) *Stats {
	st := &Stats{Outcomes: map[string]int{}, Exhaustive: true, BoundDone: o.Bound}
	if o.MaxViolations == 0 {
		o.MaxViolations = 3
	}
	if o.PollBound == 0 {
		o.PollBound = 2
	}
	var visited map[string]bool
	if o.Prune {
		visited = map[string]bool{}
	}
	var rec func(prefix []int)
	stop := false
	rec = func(prefix []int) {
		if stop {
			return
		}
		if (!o.Deadline.IsZero() && time.Now().After(o.Deadline)) ||
			(o.MaxSchedules > 0 && st.Schedules >= o.MaxSchedules) {
			st.Exhaustive = false
			stop = true
			return
		}
		s, msg := RunOnce(prog, prefix, visited, o.MaxSteps)
		st.Schedules++
		st.Points += len(s.Points)
		st.Steps += s.Steps
		if len(s.Points) > st.MaxPoints {
			st.MaxPoints = len(s.Points)
		}
		if s.Pruned {
			st.Pruned++
		}
		if o.Outcome != nil && !s.Pruned {
			st.Outcomes[o.Outcome()]++
		}
		if msg != "" {
			if len(msg) > 17 && msg[:17] == "REPLAY-DIVERGENCE" {
				st.Divergences++
			}
			st.Violations = append(st.Violations, Violation{Choices: s.Choices(), Message: msg})
			if len(st.Violations) >= o.MaxViolations {
				stop = true
			}
			return
		}
		// alternatives at every later point
		pre, pol := 0, 0
		for i := 0; i < len(s.Points); i++ {
			p := s.Points[i]
			if i >= len(prefix) {
				for alt := 1; alt < len(p.Enabled); alt++ {
					cost, pcost := pre, pol
					if p.CurEnabled {
						cost++
					}
					if p.Polling[alt] && !p.Polling[0] {
						pcost++
					}
					if o.Bound >= 0 && cost+pcost > o.Bound {
						continue
					}
					if o.Bound < 0 && pcost > o.PollBound {
						continue
					}
					np := make([]int, i+1)
					for k := 0; k < i; k++ {
						np[k] = s.Points[k].Chosen
					}
					np[i] = alt
					rec(np)
					if stop {
						return
					}
				}
			}
			if p.CurEnabled && p.Chosen != 0 {
				pre++
			}
			if p.Polling[p.Chosen] && !p.Polling[0] {
				pol++
			}
		}
	}
	rec(nil)
	return st
}

// RunOnce executes prog once under the given choice prefix and returns the
// execution and the violation message ("" if none).
func RunOnce(prog Program, prefix []int, visited map[string]bool, maxSteps int) (*S, string) {
	s := New(prefix)
	if maxSteps > 0 {
		s.MaxSteps = maxSteps
	}
	check := prog(s)
	if visited != nil {
		s.SetVisited(visited)
	}
	s.Run()
	if s.Pruned {
		// the oracle is still evaluated on the partial execution
		if check != nil {
			if m := check(false); m != "" {
				return s, m
			}
		}
		return s, ""
	}
	if s.Failure != "" {
		return s, s.Failure
	}
	if len(s.Points) < len(prefix) {
		return s, fmt.Sprintf("REPLAY-DIVERGENCE: execution had %d choice points, prefix has %d", len(s.Points), len(prefix))
	}
	if check != nil {
		if m := check(true); m != "" {
			return s, m
		}
	}
	return s, ""
}
