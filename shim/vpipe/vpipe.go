// Package vpipe is a scripted in-memory connection pair for the handshake
// harnesses (C07, C08).  Writes never block (unbounded buffers); bytes reach
// the other end only when the harness — playing the network — delivers them,
// k bytes at a time, so TCP segmentation and coalescing are explorer choices.
// It is meant to run inside a testing/synctest bubble: a blocked Read is a
// durably blocked goroutine, and deadlines use the bubble's clock.
package vpipe

import (
	"errors"
	"io"
	"net"
	"os"
	"sync"
	"time"
)

type addr string

func (a addr) Network() string { return "vpipe" }
func (a addr) String() string  { return string(a) }

// End is one end of the pair.
type End struct {
	mu       sync.Mutex
	cond     *sync.Cond
	name     string
	peer     *End
	inbox    []byte // delivered, not yet read
	outbox   []byte // written, not yet delivered to the peer
	Raw      []byte // everything ever written by this end (the bytes "on the wire")
	eof      bool   // the peer's stream has ended (after inbox drains)
	closed   bool
	rdl, wdl time.Time
	timers   []*time.Timer
	// fault injection for writes: fail (or short-write) when the cumulative
	// number of bytes written would exceed FailAt (<0 = never)
	FailAt    int
	ShortOnly bool
	FailErr   error
	written   int
	Remote    net.Addr
	Local     net.Addr
	// Reads counts Read calls that returned data, with their sizes
	ReadSizes []int
}

// New returns a connected pair.
func New() (*End, *End) {
	a := &End{name: "a", FailAt: -1, Remote: addr("b"), Local: addr("a")}
	b := &End{name: "b", FailAt: -1, Remote: addr("a"), Local: addr("b")}
	a.cond = sync.NewCond(&a.mu)
	b.cond = sync.NewCond(&b.mu)
	a.peer, b.peer = b, a
	return a, b
}

func (e *End) Read(p []byte) (int, error) {
	e.mu.Lock()
	defer e.mu.Unlock()
	for {
		if e.closed {
			return 0, net.ErrClosed
		}
		if len(e.inbox) > 0 {
			n := copy(p, e.inbox)
			e.inbox = e.inbox[n:]
			e.ReadSizes = append(e.ReadSizes, n)
			return n, nil
		}
		if e.eof {
			return 0, io.EOF
		}
		if !e.rdl.IsZero() && !time.Now().Before(e.rdl) {
			return 0, os.ErrDeadlineExceeded
		}
		if len(p) == 0 {
			return 0, nil
		}
		e.cond.Wait()
	}
}

func (e *End) Write(p []byte) (int, error) {
	e.mu.Lock()
	defer e.mu.Unlock()
	if e.closed {
		return 0, net.ErrClosed
	}
	if !e.wdl.IsZero() && !time.Now().Before(e.wdl) {
		return 0, os.ErrDeadlineExceeded
	}
	n := len(p)
	var err error
	if e.FailAt >= 0 && e.written+n > e.FailAt {
		n = e.FailAt - e.written
		if n < 0 {
			n = 0
		}
		if !e.ShortOnly {
			err = e.FailErr
			if err == nil {
				err = errors.New("vpipe: injected write failure")
			}
		}
	}
	e.outbox = append(e.outbox, p[:n]...)
	e.Raw = append(e.Raw, p[:n]...)
	e.written += n
	return n, err
}

// Pending returns the number of bytes written by this end and not yet delivered.
func (e *End) Pending() int {
	e.mu.Lock()
	defer e.mu.Unlock()
	return len(e.outbox)
}

// Unread returns the number of bytes delivered to this end and not yet read.
func (e *End) Unread() int {
	e.mu.Lock()
	defer e.mu.Unlock()
	return len(e.inbox)
}

// Deliver moves k pending bytes written by this end into the peer's inbox.
func (e *End) Deliver(k int) {
	e.mu.Lock()
	if k > len(e.outbox) {
		k = len(e.outbox)
	}
	b := append([]byte{}, e.outbox[:k]...)
	e.outbox = e.outbox[k:]
	e.mu.Unlock()
	p := e.peer
	p.mu.Lock()
	p.inbox = append(p.inbox, b...)
	p.cond.Broadcast()
	p.mu.Unlock()
}

// EndOfStream tells the peer that nothing more will come from this end.
func (e *End) EndOfStream() {
	p := e.peer
	p.mu.Lock()
	p.eof = true
	p.cond.Broadcast()
	p.mu.Unlock()
}

// Closed reports whether Close was called on this end.
func (e *End) Closed() bool {
	e.mu.Lock()
	defer e.mu.Unlock()
	return e.closed
}

func (e *End) Close() error {
	e.mu.Lock()
	if e.closed {
		e.mu.Unlock()
		return nil
	}
	e.closed = true
	for _, t := range e.timers {
		t.Stop()
	}
	e.cond.Broadcast()
	e.mu.Unlock()
	return nil
}

func (e *End) LocalAddr() net.Addr  { return e.Local }
func (e *End) RemoteAddr() net.Addr { return e.Remote }

func (e *End) arm(t time.Time) {
	if t.IsZero() {
		return
	}
	d := time.Until(t)
	if d < 0 {
		d = 0
	}
	e.timers = append(e.timers, time.AfterFunc(d, func() {
		e.mu.Lock()
		e.cond.Broadcast()
		e.mu.Unlock()
	}))
}

func (e *End) SetDeadline(t time.Time) error {
	e.mu.Lock()
	e.rdl, e.wdl = t, t
	e.arm(t)
	e.cond.Broadcast()
	e.mu.Unlock()
	return nil
}

func (e *End) SetReadDeadline(t time.Time) error {
	e.mu.Lock()
	e.rdl = t
	e.arm(t)
	e.cond.Broadcast()
	e.mu.Unlock()
	return nil
}

func (e *End) SetWriteDeadline(t time.Time) error {
	e.mu.Lock()
	e.wdl = t
	e.mu.Unlock()
	return nil
}

// StopTimers cancels outstanding deadline timers (so that a bubble can end).
func (e *End) StopTimers() {
	e.mu.Lock()
	for _, t := range e.timers {
		t.Stop()
	}
	e.timers = nil
	e.mu.Unlock()
}
