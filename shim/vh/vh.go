// Package vh holds what every /verif harness shares: tier/shard/deadline
// parsing and the worker-result file that ./run aggregates into evidence.
package vh

import (
	"encoding/json"
	"fmt"
	"os"
	"path/filepath"
	"sort"
	"strconv"
	"strings"
	"sync"
	"time"
)

var start = time.Now()

// Tier returns "quick" or "thorough".
func Tier() string {
	if os.Getenv("VERIF_TIER") == "thorough" {
		return "thorough"
	}
	return "quick"
}

func Thorough() bool { return Tier() == "thorough" }

// Prop returns the property id this worker was started for ("" = any).
func Prop() string { return os.Getenv("VERIF_PROP") }

// Shard returns this worker's index and the number of workers.
func Shard() (int, int) {
	s := os.Getenv("VERIF_SHARD")
	if s == "" {
		return 0, 1
	}
	a, b, _ := strings.Cut(s, "/")
	i, _ := strconv.Atoi(a)
	n, _ := strconv.Atoi(b)
	if n <= 0 {
		return 0, 1
	}
	return i, n
}

// Mine reports whether work item k belongs to this shard.
func Mine(k int) bool {
	i, n := Shard()
	return k%n == i
}

// Deadline is the wall-clock instant at which a search must stop and report
// what it completed (exhaustive=false).  It is never used as an oracle.
func Deadline() time.Time {
	d := 100 * time.Second
	if Thorough() {
		d = 15 * time.Minute
	}
	if s := os.Getenv("VERIF_BUDGET_S"); s != "" {
		if v, err := strconv.Atoi(s); err == nil {
			d = time.Duration(v) * time.Second
		}
	}
	return start.Add(d)
}

func Expired() bool { return time.Now().After(Deadline()) }

// ReplayFile returns the path of the replay artefact to execute ("" if none).
func ReplayFile() string { return os.Getenv("VERIF_REPLAY") }

// Violation is a failing case, with everything needed to replay it.
type Violation struct {
	Key     string `json:"key"`     // stable key computed from the observation
	Message string `json:"message"` // human-readable description
	Replay  any    `json:"replay"`  // scenario + choice list / input
	Job     string `json:"job,omitempty"` // the test (job of the check) that found it: a replay runs that test
}

// Result is what one worker reports for one property.
type Result struct {
	mu         sync.Mutex
	Property   string              `json:"property"`
	Counters   map[string]int64    `json:"counters"`
	Max        map[string]int64    `json:"max"`
	Sets       map[string][]string `json:"sets"`
	sets       map[string]map[string]bool
	Samples    []any               `json:"samples"`
	Exhaustive bool                `json:"exhaustive"`
	Notes      []string            `json:"notes"`
	Violations []Violation         `json:"violations"`
	Info       map[string]any      `json:"info"`
	// FileOffset is added to the shard number in the result file's name, so
	// that several jobs of one check do not overwrite each other's files.
	FileOffset int `json:"-"`
}

func NewResult(prop string) *Result {
	return &Result{Property: prop, Counters: map[string]int64{}, Max: map[string]int64{},
		sets: map[string]map[string]bool{}, Exhaustive: true, Info: map[string]any{}}
}

func (r *Result) Add(name string, n int64) {
	r.mu.Lock()
	r.Counters[name] += n
	r.mu.Unlock()
}

func (r *Result) SetMax(name string, n int64) {
	r.mu.Lock()
	if n > r.Max[name] {
		r.Max[name] = n
	}
	r.mu.Unlock()
}

// Distinct records a member of a named set; the runner reports the set sizes.
func (r *Result) Distinct(set, member string) {
	r.mu.Lock()
	m := r.sets[set]
	if m == nil {
		m = map[string]bool{}
		r.sets[set] = m
	}
	if len(m) < 200000 {
		m[member] = true
	}
	r.mu.Unlock()
}

func (r *Result) Sample(v any) {
	r.mu.Lock()
	if len(r.Samples) < 6 {
		r.Samples = append(r.Samples, v)
	}
	r.mu.Unlock()
}

func (r *Result) Note(format string, a ...any) {
	r.mu.Lock()
	if len(r.Notes) < 50 {
		r.Notes = append(r.Notes, fmt.Sprintf(format, a...))
	}
	r.mu.Unlock()
}

func (r *Result) NotExhaustive(why string) {
	r.mu.Lock()
	r.Exhaustive = false
	if len(r.Notes) < 50 {
		r.Notes = append(r.Notes, "not exhaustive: "+why)
	}
	r.mu.Unlock()
}

// Violate records a violation (deduplicated on key, at most 20 kept).
func (r *Result) Violate(key, msg string, replay any) {
	r.mu.Lock()
	defer r.mu.Unlock()
	for _, v := range r.Violations {
		if v.Key == key {
			return
		}
	}
	if len(r.Violations) < 20 {
		r.Violations = append(r.Violations, Violation{key, msg, replay, os.Getenv("VERIF_TEST")})
	}
}

// HasViolation reports whether a violation with this key is already recorded.
func (r *Result) HasViolation(key string) bool {
	r.mu.Lock()
	defer r.mu.Unlock()
	for _, v := range r.Violations {
		if v.Key == key {
			return true
		}
	}
	return false
}

func (r *Result) NViolations() int {
	r.mu.Lock()
	defer r.mu.Unlock()
	return len(r.Violations)
}

// Write stores the result where ./run will find it.
func (r *Result) Write() error {
	r.mu.Lock()
	defer r.mu.Unlock()
	dir := os.Getenv("VERIF_OUT")
	if dir == "" {
		dir = os.TempDir()
	}
	r.Sets = map[string][]string{}
	for k, m := range r.sets {
		var l []string
		for s := range m {
			l = append(l, s)
		}
		sort.Strings(l)
		r.Sets[k] = l
	}
	i, _ := Shard()
	b, err := json.Marshal(r)
	if err != nil {
		return err
	}
	// result files of different jobs of one check never collide
	job, _ := strconv.Atoi(os.Getenv("VERIF_JOB"))
	name := filepath.Join(dir, fmt.Sprintf("%s.%d.json", r.Property, i+r.FileOffset+1000*job))
	tmp := name + ".tmp"
	if err := os.WriteFile(tmp, b, 0o644); err != nil {
		return err
	}
	return os.Rename(tmp, name)
}

// LoadReplay decodes the "replay" member of a replay artefact into v.
func LoadReplay(v any) error {
	b, err := os.ReadFile(ReplayFile())
	if err != nil {
		return err
	}
	var w struct {
		Replay json.RawMessage `json:"replay"`
	}
	if err := json.Unmarshal(b, &w); err != nil {
		return err
	}
	return json.Unmarshal(w.Replay, v)
}

// Checkpoint writes the execution about to run to disk so that, if the worker
// dies (SIGSEGV, fatal error, out of memory), the runner can attribute the
// crash to it.  Cheap enough for per-execution use only in crash-prone runs.
func Checkpoint(prop string, replay any) { CheckpointKey(prop, "", replay) }

// CheckpointKey is Checkpoint with a hint for the stable key of the violation
// the runner records if the worker dies during this execution.
func CheckpointKey(prop, keyHint string, replay any) {
	dir := os.Getenv("VERIF_OUT")
	if dir == "" {
		return
	}
	i, _ := Shard()
	b, _ := json.Marshal(map[string]any{"property": prop, "replay": replay, "key_hint": keyHint})
	os.WriteFile(filepath.Join(dir, fmt.Sprintf("%s.%d.current", prop, i)), b, 0o644)
}

// ClearCheckpoint removes the crash-attribution file.
func ClearCheckpoint(prop string) {
	dir := os.Getenv("VERIF_OUT")
	if dir == "" {
		return
	}
	i, _ := Shard()
	os.Remove(filepath.Join(dir, fmt.Sprintf("%s.%d.current", prop, i)))
}

// Guard arms a real-time watchdog around one execution (call it outside any
// synctest bubble).  An execution normally takes milliseconds; one that is
// still running after limit (a handler that never returns, a goroutine
// spinning inside a bubble so that quiescence is never reached) is reported
// as "did not terminate": the worker leaves a note for the runner, which
// attributes the violation to this execution, and exits.  The limit is only
// ever used this way, never as a timing oracle.
func Guard(prop, keyHint string, replay any, limit time.Duration) (stop func()) {
	t := time.AfterFunc(limit, func() {
		CheckpointKey(prop, keyHint+"/did-not-terminate", replay)
		fmt.Fprintf(os.Stderr, "fatal error: execution did not terminate within %v (livelock or handler that never returns)\n", limit)
		os.Exit(3)
	})
	return func() { t.Stop() }
}
